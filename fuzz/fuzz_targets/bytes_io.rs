#![no_main]
use libfuzzer_sys::fuzz_target;
use std::sync::Once;

static INIT: Once = Once::new();

fuzz_target!(|data: &[u8]| {
    INIT.call_once(|| {
        let default = std::panic::take_hook();
        std::panic::set_hook(Box::new(move |info| {
            let msg = info.payload().downcast_ref::<String>().map(|s| s.as_str()).or(info.payload().downcast_ref::<&str>().copied()).unwrap_or("");
            if msg.starts_with("ORACLE:") {
                default(info);
            }
        }));
    });
    let case = cbverif::fuzz_decode::decode_io_case(data);
    if let Err(msg) = cbverif::io_engine::run_io_case(&case) {
        eprintln!("ORACLE-FAILURE {}\n{}", msg, serde_json_free(&case));
        panic!("ORACLE: {msg}");
    }
});

fn serde_json_free(c: &cbverif::io_engine::IoCase) -> String {
    c.render()
}
