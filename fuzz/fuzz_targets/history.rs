#![no_main]
//! Coverage-guided histories: bytes -> Case (total decoder) -> the same interpreter and oracles
//! as the enumerative and proptest generators, under AddressSanitizer.
use cbverif::props::{exec_replay, Prop};
use libfuzzer_sys::fuzz_target;
use std::sync::OnceLock;

static PROP: OnceLock<Prop> = OnceLock::new();

fuzz_target!(|data: &[u8]| {
    let prop = *PROP.get_or_init(|| {
        // the real panic hook stays installed: libFuzzer needs the abort to save the artefact,
        // but expected (caught) panics of the crate must stay quiet
        let default = std::panic::take_hook();
        std::panic::set_hook(Box::new(move |info| {
            let msg = info.payload().downcast_ref::<String>().map(|s| s.as_str()).or(info.payload().downcast_ref::<&str>().copied()).unwrap_or("");
            if msg.starts_with("ORACLE:") {
                default(info);
            }
        }));
        Prop::parse(&std::env::var("CBVERIF_FUZZ_PROP").unwrap_or_else(|_| "C03".into())).expect("property")
    });
    let case = cbverif::fuzz_decode::decode_case(data);
    // the ledger is thread-local and reset at the top of every case by the interpreter
    if let Err(msg) = exec_replay(prop, &case) {
        eprintln!("ORACLE-FAILURE {}\n{}", msg, case.to_json());
        panic!("ORACLE: {msg}");
    }
});
