#!/usr/bin/env python3
"""Prints the table of DESIGN.md 9.2 from the evidence files of the last runs."""
import json, os
ROOT = os.path.dirname(os.path.dirname(os.path.abspath(__file__)))
print("| id | tier | evaluations | distinct non-trivial | wall (s) | further counts |")
print("|----|------|-------------|----------------------|----------|----------------|")
for i in range(1, 21):
    pid = f"C{i:02d}"
    path = os.path.join(ROOT, "evidence", pid + ".json")
    if not os.path.exists(path):
        continue
    e = json.load(open(path))
    c = e["coverage"]
    extra = []
    for k, v in c.items():
        if isinstance(v, int) and k not in ("evaluations", "distinct_nontrivial", "regression_cases_replayed") and not isinstance(v, bool):
            extra.append(f"{k.replace('_', ' ')} {v}")
    print(f"| {pid} | {e['tier']} | {c['evaluations']} | {c['distinct_nontrivial']} | {e['wall_s']:.0f} | {'; '.join(extra)} |")
