"""C15: borrow, variance, const and auto-trait contracts.

The property quantifies over client *programs*, so programs are what is generated: a small grammar
(subject x contract x element type) is expanded completely into one-function library crates, each
compiled with rustc against the rlib built from /repo's working tree.  Oracles: (a) differential -
the same program text over std::collections::VecDeque (same method names, same variance) or over
the array / slice / reference the subject stands for must be accepted iff the circular-buffer
version is; (b) the expectation stated in the property.  A must-reject program only counts as
rejected if its diagnostics are of the borrow / lifetime / trait-bound class and its must-accept
twin compiles.
"""
import hashlib
import json
import os
import subprocess
import sys
import time
from concurrent.futures import ThreadPoolExecutor

import cbcheck as cc

OK_REJECT_CODES = {"E0499", "E0502", "E0505", "E0506", "E0515", "E0597", "E0716", "E0521", "E0277", "E0382", "E0503", "E0713", "E0712"}

HEAD_CB = """#![allow(unused, dropping_references, dropping_copy_types, clippy::all)]
use circular_buffer::CircularBuffer;
type Buf<T> = CircularBuffer<{N}, T>;
type It<'a, T> = circular_buffer::Iter<'a, T>;
type ItMut<'a, T> = circular_buffer::IterMut<'a, T>;
type Dr<'a, T> = circular_buffer::Drain<'a, {N}, T>;
type IntoIt<T> = circular_buffer::IntoIter<{N}, T>;
"""
HEAD_VD = """#![allow(unused, dropping_references, dropping_copy_types, clippy::all)]
type Buf<T> = std::collections::VecDeque<T>;
type It<'a, T> = std::collections::vec_deque::Iter<'a, T>;
type ItMut<'a, T> = std::collections::vec_deque::IterMut<'a, T>;
type Dr<'a, T> = std::collections::vec_deque::Drain<'a, T>;
type IntoIt<T> = std::collections::vec_deque::IntoIter<T>;
"""
# the arrays, slices and references the subjects stand for (auto traits only)
HEAD_REF = """#![allow(unused)]
type Buf<T> = [T; 4];
type It<'a, T> = &'a [T];
type ItMut<'a, T> = &'a mut [T];
type IntoIt<T> = [T; 4];
"""

SHARED_VIEWS = [
    ("iter", "let v = b.iter();", "let _ = v.len();"),
    ("range", "let v = b.range(..);", "let _ = v.len();"),
    ("ref_into_iter", "let v = (&b).into_iter();", "let _ = v.len();"),
    ("as_slices", "let v = b.as_slices();", "let _ = v.0.len();"),
    ("front", "let v = b.front();", "let _ = v.is_some();"),
    ("get", "let v = b.get(0);", "let _ = v.is_some();"),
]
MUT_VIEWS = [
    ("iter_mut", "let mut v = b.iter_mut();", "let _ = v.next();"),
    ("range_mut", "let mut v = b.range_mut(..);", "let _ = v.next();"),
    ("drain", "let mut v = b.drain(..);", "let _ = v.next();"),
    ("as_mut_slices", "let v = b.as_mut_slices();", "let _ = v.0.len();"),
    ("make_contiguous", "let v = b.make_contiguous();", "let _ = v.len();"),
    ("front_mut", "let v = b.front_mut();", "let _ = v.is_some();"),
    ("get_mut", "let v = b.get_mut(0);", "let _ = v.is_some();"),
]
CONFLICTS = [
    ("push_back", "b.push_back(String::new());"),
    ("clear", "b.clear();"),
    ("move", "let c = b;"),
    ("drop", "drop(b);"),
    ("second_iter_mut", "let w = b.iter_mut();"),
    ("second_drain", "let w = b.drain(..);"),
]
SHARED_READ = ("shared_read", "let _ = b.len();")


def programs():
    """yields dicts: name, contract, body, expect ('accept'|'reject'), variants (list of head names), twin (name)"""
    out = []

    def add(name, contract, body, expect, variants=("cb", "vd"), twin=None, n=4):
        out.append({"name": name, "contract": contract, "body": body, "expect": expect, "variants": list(variants), "twin": twin, "n": n})

    # 1. borrow held
    for kind, views in (("shared", SHARED_VIEWS), ("mut", MUT_VIEWS)):
        for vname, create, use in views:
            conflicts = list(CONFLICTS) + ([SHARED_READ] if kind == "mut" else [])
            for cname, action in conflicts:
                base = f"fn f() {{\n    let mut b: Buf<String> = Buf::new();\n    b.push_back(String::from(\"x\"));\n"
                rej = base + f"    {create}\n    {action}\n    {use}\n}}\n"
                acc = base + f"    {create}\n    {use}\n    drop(v);\n    {action}\n}}\n"
                add(f"borrow_{vname}_{cname}_held", "borrow-held", rej, "reject", twin=f"borrow_{vname}_{cname}_released")
                add(f"borrow_{vname}_{cname}_released", "borrow-held", acc, "accept")
    # 2. outlive
    outl = [
        ("iter", "It<'a, String>", "b.iter()"),
        ("range", "It<'a, String>", "b.range(..)"),
        ("iter_mut", "ItMut<'a, String>", "b.iter_mut()"),
        ("range_mut", "ItMut<'a, String>", "b.range_mut(..)"),
        ("drain", "Dr<'a, String>", "b.drain(..)"),
        ("as_slices", "(&'a [String], &'a [String])", "b.as_slices()"),
        ("as_mut_slices", "(&'a mut [String], &'a mut [String])", "b.as_mut_slices()"),
        ("make_contiguous", "&'a mut [String]", "b.make_contiguous()"),
        ("front_mut", "Option<&'a mut String>", "b.front_mut()"),
    ]
    for vname, ty, expr in outl:
        add(f"outlive_{vname}_returned", "outlive",
            f"fn f<'a>() -> {ty} {{\n    let mut b: Buf<String> = Buf::new();\n    {expr}\n}}\n", "reject", twin=f"outlive_{vname}_collected")
        add(f"outlive_{vname}_collected", "outlive",
            f"fn f() -> Vec<String> {{\n    let mut b: Buf<String> = Buf::new();\n    let _ = {{ {expr}; }};\n    b.into_iter().collect()\n}}\n", "accept")
    for vname, expr, use in (("iter", "b.iter()", "v.count()"), ("drain", "b.drain(..)", "v.count()"), ("iter_mut", "b.iter_mut()", "v.count()")):
        add(f"outlive_{vname}_block", "outlive",
            f"fn f() -> usize {{\n    let v;\n    {{\n        let mut b: Buf<String> = Buf::new();\n        v = {expr};\n    }}\n    {use}\n}}\n", "reject", twin=f"outlive_{vname}_block_ok")
        add(f"outlive_{vname}_block_ok", "outlive",
            f"fn f() -> usize {{\n    let mut b: Buf<String> = Buf::new();\n    let v = {expr};\n    {use}\n}}\n", "accept")
    # 3. variance
    covariant = [("buffer", "Buf<{T}>"), ("iter", "It<'b, {T}>"), ("drain", "Dr<'b, {T}>"), ("into_iter", "IntoIt<{T}>")]
    for sname, ty in covariant:
        lt = "'a, 'b" if "'b" in ty else "'a"
        add(f"variance_{sname}_shorten_elem", "variance",
            f"fn f<{lt}>(x: {ty.format(T=chr(38) + chr(39) + 'static str')}) -> {ty.format(T=chr(38) + chr(39) + 'a str')} {{ x }}\n", "accept")
        add(f"variance_{sname}_lengthen_elem", "variance",
            f"fn f<{lt}>(x: {ty.format(T=chr(38) + chr(39) + 'a str')}) -> {ty.format(T=chr(38) + chr(39) + 'static str')} {{ x }}\n", "reject",
            twin=f"variance_{sname}_shorten_elem")
    add("variance_iter_mut_shorten_elem", "variance", "fn f<'a, 'b>(x: ItMut<'b, &'static str>) -> ItMut<'b, &'a str> { x }\n", "reject", twin="variance_iter_mut_same_elem")
    add("variance_iter_mut_lengthen_elem", "variance", "fn f<'a, 'b>(x: ItMut<'b, &'a str>) -> ItMut<'b, &'static str> { x }\n", "reject", twin="variance_iter_mut_same_elem")
    add("variance_iter_mut_same_elem", "variance", "fn f<'a, 'b>(x: ItMut<'b, &'a str>) -> ItMut<'b, &'a str> { x }\n", "accept")
    for sname, ty in (("iter", "It<{L}, T>"), ("iter_mut", "ItMut<{L}, T>"), ("drain", "Dr<{L}, T>")):
        add(f"variance_{sname}_shorten_borrow", "variance",
            f"fn f<'long: 'short, 'short, T>(x: {ty.format(L=chr(39) + 'long')}) -> {ty.format(L=chr(39) + 'short')} {{ x }}\n", "accept")
        add(f"variance_{sname}_lengthen_borrow", "variance",
            f"fn f<'long: 'short, 'short, T>(x: {ty.format(L=chr(39) + 'short')}) -> {ty.format(L=chr(39) + 'long')} {{ x }}\n", "reject",
            twin=f"variance_{sname}_shorten_borrow")
    # the classic unsoundness witness for an invariant-by-mistake / covariant-by-mistake IterMut
    add("variance_iter_mut_smuggle", "variance",
        "fn f<'a>(b: &mut Buf<&'static str>, s: &'a str) {\n    fn put<'x, 'y>(mut it: ItMut<'y, &'x str>, s: &'x str) { if let Some(e) = it.next() { *e = s; } }\n    put(b.iter_mut(), s);\n}\n",
        "reject", twin="variance_iter_mut_put_ok")
    add("variance_iter_mut_put_ok", "variance",
        "fn f<'a>(b: &mut Buf<&'a str>, s: &'a str) {\n    fn put<'x, 'y>(mut it: ItMut<'y, &'x str>, s: &'x str) { if let Some(e) = it.next() { *e = s; } }\n    put(b.iter_mut(), s);\n}\n",
        "accept")
    # 4. auto traits
    elems = [("u8", "u8", True, True), ("rc", "std::rc::Rc<u8>", False, False), ("cell", "std::cell::Cell<u8>", True, False),
             ("mutex_guard", "std::sync::MutexGuard<'static, u8>", False, True), ("raw_ptr", "*const u8", False, False)]
    subjects = [("buffer", "Buf<{T}>", lambda s, y: (s, y)), ("iter", "It<'static, {T}>", lambda s, y: (y, y)),
                ("iter_mut", "ItMut<'static, {T}>", lambda s, y: (s, y)), ("into_iter", "IntoIt<{T}>", lambda s, y: (s, y))]
    for ename, ety, esend, esync in elems:
        for sname, ty, rule in subjects:
            send, sync = rule(esend, esync)
            for tname, val in (("Send", send), ("Sync", sync)):
                add(f"auto_{sname}_{ename}_{tname.lower()}", "auto-trait",
                    f"fn need<X: {tname}>() {{}}\nfn f() {{ need::<{ty.format(T=ety)}>(); }}\n", "accept" if val else "reject",
                    variants=("cb", "vd", "ref"))
    # 5. const contexts
    for n in (0, 1, 4):
        for tname, ty in (("u32", "u32"), ("string", "String"), ("str", "&'static str"), ("unit", "()"), ("zst_struct", "Zst"), ("big", "[u64; 64]")):
            add(f"const_static_{n}_{tname}", "const", f"static S: Buf<{ty}> = Buf::new();\n", "accept", n=n)
            add(f"const_const_{n}_{tname}", "const", f"const C: Buf<{ty}> = Buf::new();\nfn f() -> usize {{ C.len() }}\n", "accept", n=n)
            add(f"const_fn_{n}_{tname}", "const", f"const fn mk() -> Buf<{ty}> {{ Buf::new() }}\nstatic S: Buf<{ty}> = mk();\n", "accept", n=n)
            add(f"const_inline_repeat_{n}_{tname}", "const", f"fn f() -> [Buf<{ty}>; 3] {{ [const {{ Buf::<{ty}>::new() }}; 3] }}\n", "accept", n=n)
    # const evaluation must not take time proportional to the capacity (rustc's long_running_const_eval lint is an error)
    for n in (1 << 20, 3_000_000):
        for tname, ty in (("u8", "u8"), ("string", "String"), ("unit", "()")):
            add(f"const_static_{n}_{tname}", "const", f"static S: Buf<{ty}> = Buf::new();\npub fn f() -> usize {{ S.len() }}\n", "accept", n=n)
            add(f"const_const_{n}_{tname}", "const", f"const C: Buf<{ty}> = Buf::new();\npub static S2: Buf<{ty}> = C;\n", "accept", n=n)
    # new() / default() / collect() must also be usable in ordinary code for every element type and capacity
    for n in (0, 1, 4, 1000):
        for tname, ty in (("unit", "()"), ("zst_struct", "Zst"), ("u8", "u8"), ("big", "[u64; 64]")):
            add(f"construct_{n}_{tname}", "const", f"pub fn f() -> usize {{\n    let b: Buf<{ty}> = Buf::new();\n    let d: Buf<{ty}> = Default::default();\n    b.len() + d.len()\n}}\n", "accept", n=n)
    # 4b. single ownership: a drain is the only handle on the elements it has detached from the buffer, a mutable
    # iterator the only handle on the elements it has not produced yet, an owning iterator owns its elements - none
    # of them may be duplicable, and the buffer itself is not Copy
    for sname, ty, vs in (("drain", "Dr<'static, u8>", ("cb", "vd")), ("drain_string", "Dr<'static, String>", ("cb", "vd")),
                          ("iter_mut", "ItMut<'static, u8>", ("cb", "vd", "ref"))):
        add(f"own_{sname}_not_clone", "ownership", f"fn need<X: Clone>() {{}}\nfn f() {{ need::<{ty}>(); }}\n", "reject", variants=vs, twin=f"own_{sname}_sized")
        add(f"own_{sname}_sized", "ownership", f"fn need<X: Sized>() {{}}\nfn f() {{ need::<{ty}>(); }}\n", "accept", variants=vs)
    for sname, ty in (("drain", "Dr<'static, u8>"), ("iter_mut", "ItMut<'static, u8>"), ("into_iter", "IntoIt<u8>"), ("buffer", "Buf<u8>"), ("buffer_unit", "Buf<()>")):
        add(f"own_{sname}_not_copy", "ownership", f"fn need<X: Copy>() {{}}\nfn f() {{ need::<{ty}>(); }}\n", "reject", variants=("cb", "vd"))
    # a drain hands its elements out by value and destroys the rest, so it may cross threads at most when the
    # elements may (the crate's Drain is currently neither Send nor Sync at all; only the unsound direction is decided)
    for ename, ety, tname in (("rc", "std::rc::Rc<u8>", "Send"), ("rc", "std::rc::Rc<u8>", "Sync"), ("mutex_guard", "std::sync::MutexGuard<'static, u8>", "Send"),
                              ("cell", "std::cell::Cell<u8>", "Sync"), ("raw_ptr", "*const u8", "Send"), ("raw_ptr", "*const u8", "Sync")):
        add(f"auto_drain_{ename}_{tname.lower()}", "auto-trait", f"fn need<X: {tname}>() {{}}\nfn f() {{ need::<Dr<'static, {ety}>>(); }}\n", "reject", variants=("cb", "vd"))
    # 4c. drop check: the buffer's destructor runs the elements' destructors, so borrowed data held by an element with a
    # destructor must strictly outlive the buffer (a `#[may_dangle]` without an owning marker would accept this)
    loud = "struct Loud<'a>(&'a String);\nimpl Drop for Loud<'_> { fn drop(&mut self) { let _ = self.0.len(); } }\n"
    add("dropck_owner_declared_after_buffer", "drop-check",
        loud + "fn f() {\n    let mut b: Buf<Loud<'_>> = Buf::new();\n    let owner = String::from(\"x\");\n    b.push_back(Loud(&owner));\n}\n", "reject",
        twin="dropck_owner_declared_before_buffer")
    add("dropck_owner_declared_before_buffer", "drop-check",
        loud + "fn f() {\n    let owner = String::from(\"x\");\n    let mut b: Buf<Loud<'_>> = Buf::new();\n    b.push_back(Loud(&owner));\n}\n", "accept")
    add("dropck_into_iter_owner_declared_after", "drop-check",
        loud + "fn f() {\n    let mut b: Buf<Loud<'_>> = Buf::new();\n    let mut it = b.into_iter();\n    let owner = String::from(\"x\");\n    let mut c: Buf<Loud<'_>> = Buf::new();\n    c.push_back(Loud(&owner));\n    it = c.into_iter();\n}\n", "reject",
        twin="dropck_owner_declared_before_buffer")
    # 4d. a drain has a destructor that goes back into the buffer: its implicit drop at the end of the scope is a use of
    # the borrow, also when the program never mentions the drain again (a destructor moved onto a field type without the
    # lifetime would let the borrow end at the last explicit use)
    add("dropck_drain_declared_before_buffer", "drop-check",
        "fn f() {\n    let _d;\n    let mut b: Buf<String> = Buf::new();\n    b.push_back(String::new());\n    _d = b.drain(..);\n}\n", "reject",
        twin="dropck_drain_declared_after_buffer")
    add("dropck_drain_declared_after_buffer", "drop-check",
        "fn f() {\n    let mut b: Buf<String> = Buf::new();\n    b.push_back(String::new());\n    let _d;\n    _d = b.drain(..);\n}\n", "accept")
    add("dropck_drain_alive_until_scope_end", "drop-check",
        "fn f() {\n    let mut b: Buf<String> = Buf::new();\n    {\n        let _d = b.drain(..);\n        b.push_back(String::new());\n    }\n}\n", "reject",
        twin="dropck_drain_scope_ended")
    add("dropck_drain_scope_ended", "drop-check",
        "fn f() {\n    let mut b: Buf<String> = Buf::new();\n    {\n        let _d = b.drain(..);\n    }\n    b.push_back(String::new());\n}\n", "accept")
    add("dropck_drain_alive_until_scope_end_read", "drop-check",
        "fn f() -> usize {\n    let mut b: Buf<u8> = Buf::new();\n    let _d = b.drain(..);\n    b.len()\n}\n", "reject",
        twin="dropck_drain_scope_ended")
    # 6. bound-free impls
    add("impl_iter_clone_without_t_clone", "bound-free", "struct NoTraits;\nfn f(it: It<'_, NoTraits>) -> It<'_, NoTraits> { it.clone() }\n", "accept")
    add("impl_iter_default_without_bounds", "bound-free", "struct NoTraits;\nfn f<'a>() -> It<'a, NoTraits> { Default::default() }\n", "accept")
    add("impl_iter_mut_default_without_bounds", "bound-free", "struct NoTraits;\nfn f<'a>() -> ItMut<'a, NoTraits> { Default::default() }\n", "accept")
    add("impl_iter_clone_is_not_copy_of_buffer", "bound-free",
        "struct NoTraits;\nfn f(b: &Buf<NoTraits>) -> usize { let a = b.iter(); let c = a.clone(); a.len() + c.len() }\n", "accept")
    return out


def source(prog, variant):
    head = {"cb": HEAD_CB, "vd": HEAD_VD, "ref": HEAD_REF}[variant].replace("{N}", str(prog["n"]))
    extra = "pub struct Zst;\n" if "Zst" in prog["body"] else ""
    return head + "\n" + extra + prog["body"]


def compile_one(args):
    path, rlib, deps = args[:3]
    tc = args[3] if len(args) > 3 else None
    # programs about const-ness / construction are compiled down to object code, so that errors which only
    # appear when the generic code is instantiated for the element type (post-monomorphisation) are seen too
    full = "/const_" in path or "/construct_" in path or "replay_const" in path or "replay_construct" in path
    cmd = ["rustc"] + ([f"+{tc}"] if tc else []) + ["--edition", "2021", "--crate-type", "lib", "--crate-name", "witness", "--emit=obj" if full else "--emit=metadata", "--error-format=json", "-o", path[:-3] + (".o" if full else ".rmeta"),
           "--extern", f"circular_buffer={rlib}", "-L", f"dependency={deps}", "-A", "warnings", path]
    p = subprocess.run(cmd, stdout=subprocess.PIPE, stderr=subprocess.PIPE, text=True)
    errs = []
    for line in p.stderr.splitlines():
        try:
            d = json.loads(line)
        except Exception:
            continue
        if d.get("level") == "error" and d.get("message", "").startswith("aborting due to"):
            continue
        if d.get("level") == "error":
            errs.append({"code": (d.get("code") or {}).get("code"), "message": d.get("message", "")})
    return p.returncode == 0, errs


def reject_class_ok(errs):
    if not errs:
        return False
    for e in errs:
        if e["code"] in OK_REJECT_CODES:
            continue
        if e["code"] is None and ("lifetime may not live long enough" in e["message"] or "borrowed data escapes" in e["message"]):
            continue
        return False
    return True


def build_rlib(unstable=False):
    tdir = os.path.join(cc.TARGET, "witness-unstable" if unstable else "witness")
    cmd = ["cargo"] + (["+nightly"] if unstable else []) + ["build", "--release", "--offline", "--lib", "--target-dir", tdir] + (["--features", "unstable"] if unstable else [])
    p = subprocess.run(cmd, cwd=cc.REPO, env=cc.ENV, stdout=subprocess.PIPE, stderr=subprocess.STDOUT, text=True)
    if p.returncode != 0:
        cc.log(p.stdout[-2000:])
        cc.inconclusive("property=C15: the crate itself does not build" + (" with nightly + unstable" if unstable else ""))
    return os.path.join(tdir, "release", "libcircular_buffer.rlib"), os.path.join(tdir, "release", "deps")


def subset_problems(prefixes, label):
    """Compiles the witnesses whose names start with one of the prefixes (with their twins); returns
    (number of compilations, problems) where a problem is (program, why, replay dict)."""
    rlib, deps = build_rlib()
    work = os.path.join(cc.OUT, "c15-" + label)
    os.makedirs(work, exist_ok=True)
    allp = {p["name"]: p for p in programs()}
    chosen = [p for p in allp.values() if any(p["name"].startswith(x) for x in prefixes)]
    names = {p["name"] for p in chosen} | {p["twin"] for p in chosen if p["twin"]}
    jobs = []
    for n in sorted(names):
        p = allp[n]
        for v in p["variants"]:
            path = os.path.join(work, f"{n}__{v}.rs")
            open(path, "w").write(source(p, v))
            jobs.append((n, v, path))
    with ThreadPoolExecutor(max_workers=16) as ex:
        results = list(ex.map(compile_one, [(j[2], rlib, deps) for j in jobs]))
    res = {(n, v): r for (n, v, _), r in zip(jobs, results)}
    problems = []
    for p in chosen:
        ok, errs = res[(p["name"], "cb")]
        want_ok = p["expect"] == "accept"
        why = None
        for v in p["variants"]:
            if v != "cb" and res[(p["name"], v)][0] != want_ok:
                cc.inconclusive(f"witness generator: reference variant {v} of {p['name']} disagrees with the expectation table (toolchain change?)")
        if ok != want_ok:
            why = f"the program must be {p['expect']}ed but rustc {'accepts' if ok else 'rejects'} it"
        elif not ok and not reject_class_ok(errs):
            why = "the program is rejected, but not for a borrow / lifetime / trait-bound reason (API change or typo?)"
        elif not ok and p["twin"] and not res[(p["twin"], "cb")][0]:
            why = "the must-accept twin of this must-reject program does not compile, so the rejection proves nothing"
        if why:
            problems.append((p, why, {"program": p["name"], "contract": p["contract"], "expected": p["expect"], "why": why,
                                      "diagnostics": errs[:5], "source": source(p, "cb"), "twin": p["twin"]}))
    return len(jobs), problems


def run(tier, seed):
    prop = "C15"
    t0 = time.time()
    rlib, deps = build_rlib()
    work = os.path.join(cc.OUT, "c15")
    os.makedirs(work, exist_ok=True)
    progs = programs()
    byname = {p["name"]: p for p in progs}
    jobs = []
    for p in progs:
        for v in p["variants"]:
            path = os.path.join(work, f"{p['name']}__{v}.rs")
            open(path, "w").write(source(p, v))
            jobs.append((p["name"], v, path))
    with ThreadPoolExecutor(max_workers=16) as ex:
        results = list(ex.map(compile_one, [(j[2], rlib, deps) for j in jobs]))
    res = {}
    for (name, v, path), (ok, errs) in zip(jobs, results):
        res[(name, v)] = (ok, errs, path)
    problems = []
    nontrivial = set()
    generator_errors = []
    for p in progs:
        ok, errs, path = res[(p["name"], "cb")]
        want_ok = p["expect"] == "accept"
        if p["expect"] == "reject" or p["contract"] == "auto-trait":
            nontrivial.add(hashlib.sha256(source(p, "cb").encode()).hexdigest())
        # the reference variants validate the generator and give the differential answer
        for v in p["variants"]:
            if v == "cb":
                continue
            rok, rerrs, rpath = res[(p["name"], v)]
            if rok != want_ok:
                generator_errors.append(f"{p['name']}: reference variant {v} is {'accepted' if rok else 'rejected'} but the property table says {p['expect']}: {rerrs[:2]}")
            if rok != ok:
                problems.append((p, path, f"accepted={ok} for CircularBuffer but accepted={rok} for the reference ({'VecDeque' if v == 'vd' else 'array/slice/reference'}) version of the same program", errs))
        if ok != want_ok:
            problems.append((p, path, f"the program must be {p['expect']}ed but rustc {'accepts' if ok else 'rejects'} it", errs))
        elif not ok and not reject_class_ok(errs):
            problems.append((p, path, "the program is rejected, but not for a borrow / lifetime / trait-bound reason (API change or typo?)", errs))
        elif not ok and p["twin"]:
            tok, terrs, tpath = res[(p["twin"], "cb")]
            if not tok:
                problems.append((byname[p["twin"]], tpath, "the must-accept twin of a must-reject program does not compile, so the rejection proves nothing", terrs))
    # second pass: the same programs against the crate built with nightly + the `unstable` feature (cfg arms that only
    # exist there can change variance, auto traits or the drop check without touching the default build)
    unstable_note = None
    ujobs = []
    try:
        urlib, udeps = build_rlib(unstable=True)
    except SystemExit:
        raise
    for p in progs:
        path = os.path.join(work, f"{p['name']}__cbu.rs")
        open(path, "w").write(source(p, "cb"))
        ujobs.append((p, path))
    with ThreadPoolExecutor(max_workers=16) as ex:
        uresults = list(ex.map(compile_one, [(path, urlib, udeps, "nightly") for _, path in ujobs]))
    ures = {p["name"]: r for (p, _), r in zip(ujobs, uresults)}
    for (p, path), (ok, errs) in zip(ujobs, uresults):
        want_ok = p["expect"] == "accept"
        tag = " [crate built with nightly + unstable]"
        if ok != want_ok:
            problems.append((p, path, f"the program must be {p['expect']}ed but rustc {'accepts' if ok else 'rejects'} it" + tag, errs))
        elif not ok and not reject_class_ok(errs):
            problems.append((p, path, "the program is rejected, but not for a borrow / lifetime / trait-bound reason" + tag, errs))
        elif not ok and p["twin"] and not ures[p["twin"]][0]:
            problems.append((byname[p["twin"]], path, "the must-accept twin of a must-reject program does not compile" + tag, ures[p["twin"]][1]))
    jobs = jobs + [(p["name"], "cb-unstable", path) for p, path in ujobs]
    wall = time.time() - t0
    if generator_errors:
        for g in generator_errors[:10]:
            cc.log("GENERATOR-ERROR " + g)
        cc.write_min_evidence(prop, tier, seed, wall, 0, "witness generator disagrees with its own reference variants")
        cc.inconclusive("property=C15: the witness generator's expectations disagree with the reference types (toolchain change?)")
    samples = [{"program": p["name"], "contract": p["contract"], "expected": p["expect"], "source": source(p, "cb")}
               for p in progs if p["name"] in ("borrow_drain_push_back_held", "variance_iter_mut_shorten_elem", "auto_iter_cell_send", "const_static_0_string")]
    by_contract = {}
    for p in progs:
        by_contract[p["contract"]] = by_contract.get(p["contract"], 0) + 1
    cov = {
        "evaluations": len(jobs),
        "distinct_nontrivial": len(nontrivial),
        "rule": "client programs from the grammar subject x contract x element type, enumerated completely; each compiled against the rlib of the current tree and against "
                "its reference variants (VecDeque; array/slice/reference for auto traits), and against the rlib built with nightly + the unstable feature. non-trivial: must-reject programs and auto-trait programs; distinct by source hash",
        "samples": samples,
        "exhaustive": True,
        "programs": len(progs),
        "compilations": len(jobs),
        "programs_by_contract": by_contract,
        "must_reject_programs": sum(1 for p in progs if p["expect"] == "reject"),
    }
    assumptions = ["rustc's borrow checker, variance inference and auto-trait derivation are the judge; one witness per contract decides it for all programs",
                   "only the contracts in the grammar are decided (DESIGN.md 3.15)"]
    if problems:
        p, path, why, errs = problems[0]
        os.makedirs(cc.REPLAYS, exist_ok=True)
        rp = os.path.join(cc.REPLAYS, f"C15-{p['name']}.json")
        json.dump({"property": prop, "program": p["name"], "contract": p["contract"], "expected": p["expect"], "why": why, "unstable_build": "unstable" in why,
                   "diagnostics": errs[:5], "source": source(p, "cb"), "twin": p["twin"]}, open(rp, "w"), indent=1)
        for q, qpath, qwhy, _ in problems[:8]:
            cc.log(f"witness {q['name']} ({q['contract']}): {qwhy}")
        cov["failing_witnesses"] = [q[0]["name"] for q in problems]
        cc.write_evidence(prop, tier, seed, cov, wall, len(problems), assumptions)
        cc.log(f"VIOLATION property={prop} replay={rp}")
        sys.exit(1)
    cc.write_evidence(prop, tier, seed, cov, wall, 0, assumptions)
    cc.log(f"OK property={prop} tier={tier} evaluations={cov['evaluations']} distinct_nontrivial={cov['distinct_nontrivial']} wall={wall:.1f}s")
    sys.exit(0)


def replay(path, prop="C15"):
    meta = json.load(open(path))
    un = bool(meta.get("unstable_build"))
    rlib, deps = build_rlib(unstable=un)
    work = os.path.join(cc.OUT, "c15")
    os.makedirs(work, exist_ok=True)
    src = os.path.join(work, "replay_" + meta["program"] + ".rs")
    open(src, "w").write(meta["source"])
    ok, errs = compile_one((src, rlib, deps, "nightly" if un else None))
    cc.log(meta["source"])
    cc.log(f"expected: {meta['expected']}; rustc {'accepts' if ok else 'rejects'} it")
    for e in errs[:5]:
        cc.log(f"  {e['code']}: {e['message']}")
    good = ok == (meta["expected"] == "accept") and (ok or reject_class_ok(errs))
    if good and meta.get("twin"):
        tw = [p for p in programs() if p["name"] == meta["twin"]]
        if tw:
            tsrc = os.path.join(work, "replay_twin.rs")
            open(tsrc, "w").write(source(tw[0], "cb"))
            tok, _ = compile_one((tsrc, rlib, deps, "nightly" if un else None))
            good = good and tok
    if not good:
        cc.log(f"VIOLATION property={prop} replay={path}")
        sys.exit(1)
    sys.exit(0)
