#!/usr/bin/env python3
"""Driver for the rust-circular-buffer property checks (see DESIGN.md section 6).

  ./check --setup
  ./check <Cxx> [--tier quick|thorough] [--seed N]
  ./check <Cxx> --replay <path>

Exit 0: property held on everything explored.  Exit 1 + "VIOLATION property=<id> replay=<path>".
Exit 2 + "INCONCLUSIVE ...": harness could not be built, or a watchdog fired.
"""
import hashlib
import json
import os
import subprocess
import sys
import time

ROOT = os.path.dirname(os.path.dirname(os.path.abspath(__file__)))
sys.path.insert(0, os.path.join(ROOT, "lib"))
HARNESS = os.path.join(ROOT, "harness")
OUT = os.path.join(ROOT, "out")
REPLAYS = os.path.join(OUT, "replays")
# trials against deliberately changed trees (lib/seedtest.py, lib/refactortest.py) redirect their evidence
EVID = os.environ.get("VERIF_EVIDENCE_DIR") or os.path.join(ROOT, "evidence")
TARGET = os.path.join(ROOT, "target")
# Trials against a scratch copy of the repository (lib/seedtest.py --scratch): CBVERIF_REPO points at it; the
# harness is copied with its path dependency rewritten and gets its own target directory, so /repo, /verif/harness
# and /verif/target are not touched.  Registered commands never set this.
REPO = os.environ.get("CBVERIF_REPO", "/repo")
if REPO != "/repo":
    _alt = os.path.join(OUT, "alt-" + hashlib.sha256(REPO.encode()).hexdigest()[:8])
    os.makedirs(_alt, exist_ok=True)
    subprocess.run(["rsync", "-a", "--delete", "--exclude", "target", HARNESS + "/", os.path.join(_alt, "harness") + "/"], check=True)
    _ct = open(os.path.join(_alt, "harness", "Cargo.toml")).read().replace('path = "/repo"', f'path = "{REPO}"')
    open(os.path.join(_alt, "harness", "Cargo.toml"), "w").write(_ct)
    HARNESS = os.path.join(_alt, "harness")
    TARGET = os.path.join(_alt, "target")
    REPLAYS = os.path.join(_alt, "replays")
ENV = dict(os.environ, CARGO_NET_OFFLINE="true", CARGO_TERM_COLOR="never")
DEFAULT_SEED = 20260926

ENGINE_A = ["C01", "C02", "C03", "C04", "C05", "C06", "C07", "C08", "C09", "C10", "C11", "C12", "C20"]
LEVEL = {p: "exploration" for p in ["C01", "C02", "C03", "C04", "C07", "C08", "C09", "C10", "C11", "C12", "C13",
                                    "C14", "C15", "C16", "C17", "C18", "C19", "C20"]}
LEVEL["C05"] = "fault_enumeration"
LEVEL["C06"] = "fault_enumeration"


def log(*a):
    print(*a, flush=True)


def inconclusive(msg):
    log(f"INCONCLUSIVE {msg}")
    sys.exit(2)


# ----------------------------------------------------------------------------- builds
VARIANTS = {
    # name: (toolchain, cargo args, target subdir, profile dir)
    "release": (None, ["--release"], "main", "release"),
    "checked": (None, ["--profile", "checked"], "main", "checked"),
    # Tracked elements padded to 128 bytes: element-size dependent code paths
    "wide": (None, ["--release", "--features", "wide-elem"], "wide", "release"),
    "eio": (None, ["--release", "--features", "eio"], "eio", "release"),
    "eio-async": (None, ["--release", "--features", "eio-async"], "eioa", "release"),
    "eio-both": (None, ["--release", "--features", "eio,eio-async"], "eiob", "release"),
    "eio-both-nostd": (None, ["--release", "--no-default-features", "--features", "eio,eio-async"], "eiobn", "release"),
    "eio-nostd": (None, ["--release", "--no-default-features", "--features", "eio"], "eion", "release"),
    "eio-async-nostd": (None, ["--release", "--no-default-features", "--features", "eio-async"], "eioan", "release"),
    # unoptimised (opt-level 0): by-value temporaries of the buffer type really occupy stack
    "opt0": (None, ["--profile", "opt0"], "opt0", "opt0"),
    "nostd": (None, ["--release", "--no-default-features"], "nostd", "release"),
    "alloc": (None, ["--release", "--no-default-features", "--features", "cb-alloc"], "alloc", "release"),
    "unstable": ("nightly", ["--release", "--features", "unstable"], "unstable", "release"),
    "unstable-checked": ("nightly", ["--profile", "checked", "--features", "unstable"], "unstable", "checked"),
    "stable-ref": (None, ["--release"], "main", "release"),
}


def binary(variant):
    _, _, sub, prof = VARIANTS[variant]
    return os.path.join(TARGET, sub, prof, "cbverif")


def build(variant, fatal=True):
    tc, args, sub, _ = VARIANTS[variant]
    cmd = ["cargo"] + ([f"+{tc}"] if tc else []) + ["build", "--offline", "--bin", "cbverif",
                                                   "--target-dir", os.path.join(TARGET, sub)] + args
    t0 = time.time()
    p = subprocess.run(cmd, cwd=HARNESS, env=ENV, stdout=subprocess.PIPE, stderr=subprocess.STDOUT, text=True)
    if p.returncode != 0:
        tail = "\n".join(p.stdout.splitlines()[-40:])
        if fatal:
            log(tail)
            inconclusive(f"build of variant {variant} failed (cargo exit {p.returncode})")
        return False, tail
    return True, f"{time.time() - t0:.1f}s"


# ----------------------------------------------------------------------------- findings
def load_known():
    path = os.path.join(ROOT, "known_findings.json")
    if not os.path.exists(path):
        return {"known": [], "fixed": []}
    return json.load(open(path))


def case_sig(case):
    return hashlib.sha256(json.dumps(case, sort_keys=True).encode()).hexdigest()[:16]


def save_replay(prop, payload):
    os.makedirs(REPLAYS, exist_ok=True)
    sig = case_sig(payload.get("case", payload))
    path = os.path.join(REPLAYS, f"{prop}-{sig}.json")
    with open(path, "w") as f:
        json.dump(payload, f, indent=1)
    return path


def write_evidence(prop, tier, seed, coverage, wall, violations, assumptions):
    os.makedirs(EVID, exist_ok=True)
    ev = {
        "property_id": prop,
        "tier": tier,
        "seed": seed,
        "level": LEVEL[prop],
        "coverage": coverage,
        "assumptions": assumptions,
        "wall_s": round(wall, 3),
        "violations": violations,
    }
    with open(os.path.join(EVID, f"{prop}.json"), "w") as f:
        json.dump(ev, f, indent=1)


# ----------------------------------------------------------------------------- engine A
def replay_once(variant, prop, path, timeout=60):
    """returns ('ok'|'fail'|'crash'|'hang', output)"""
    try:
        p = subprocess.run([binary(variant), "replay", prop, path], stdout=subprocess.PIPE, stderr=subprocess.STDOUT,
                           text=True, timeout=timeout)
    except subprocess.TimeoutExpired:
        return "hang", ""
    if p.returncode == 0:
        return "ok", p.stdout
    if p.returncode == 1 and "REPLAY-FAIL" in p.stdout:
        return "fail", p.stdout
    if p.returncode == 71:
        return "hang", p.stdout
    return "crash", p.stdout + f"\n(exit status {p.returncode})"


def triage_crash(prop, variant, crash_file, kind):
    """A child died (kind='crash') or hung (kind='hang'): replay each breadcrumb alone."""
    cands = []
    if os.path.exists(crash_file):
        for line in open(crash_file):
            parts = line.strip().split(" ", 2)
            if len(parts) == 3 and parts[0] in ("CRASH", "HANG", "FAIL"):
                try:
                    cands.append(json.loads(parts[2]))
                except Exception:
                    pass
    os.makedirs(REPLAYS, exist_ok=True)
    # cases that already failed an oracle before the process died / hung come first
    for case in cands:
        tmp = os.path.join(OUT, f"cand-{case_sig(case)}.json")
        json.dump({"case": case}, open(tmp, "w"))
        results = [replay_once(variant, prop, tmp, timeout=45)[0] for _ in range(2)]
        if kind == "crash" and all(r == "crash" for r in results):
            path = save_replay(prop, {"property": prop, "build": variant, "case": case,
                                      "message": "the process dies (abort / fatal signal) while running this case"})
            return "violation", path
        if all(r == "fail" for r in results):
            path = save_replay(prop, {"property": prop, "build": variant, "case": case,
                                      "message": "case fails on replay after a crash of the batch run"})
            return "violation", path
        if kind == "hang" and all(r == "hang" for r in results):
            third = replay_once(variant, prop, tmp, timeout=45)[0]
            if prop == "C11" and third == "hang":
                path = save_replay(prop, {"property": prop, "build": variant, "case": case,
                                          "message": "the call does not terminate (3 reproducible timeouts of 45 s; normal cases take microseconds)"})
                return "violation", path
            return "hang", None
    return "unreproducible", None


def run_regressions(prop, variants):
    """Replays every committed regression case of this property first."""
    reg_dir = os.path.join(ROOT, "regressions")
    n = 0
    if not os.path.isdir(reg_dir):
        return n, None
    for name in sorted(os.listdir(reg_dir)):
        if not name.endswith(".json"):
            continue
        path = os.path.join(reg_dir, name)
        try:
            meta = json.load(open(path))
        except Exception:
            continue
        if meta.get("property") != prop or "case" not in meta:
            continue
        for v in variants:
            n += 1
            r, out = replay_once(v, prop, path)
            if r != "ok":
                return n, (path, v, r, out)
    return n, None


def engine_a(prop, tier, seed):
    t0 = time.time()
    variants = ["checked", "release", "wide"]
    for v in variants:
        build(v)
    known = load_known()
    known_sigs = {k["signature"]: k for k in known.get("known", []) if k.get("property") == prop}
    nreg, bad = run_regressions(prop, variants)
    if bad:
        path, v, r, out = bad
        log(out.strip()[-2000:])
        log(f"regression case fails ({r}) on build {v}")
        log(f"VIOLATION property={prop} replay={path}")
        write_min_evidence(prop, tier, seed, time.time() - t0, 1, note=f"regression {os.path.basename(path)} fails")
        sys.exit(1)
    os.makedirs(OUT, exist_ok=True)
    reports = {}
    violation = None
    for v in variants:
        out = os.path.join(OUT, f"{prop}.{v}.json")
        crash = out + ".crash"
        for f in (out, crash):
            if os.path.exists(f):
                os.remove(f)
        cmd = [binary(v), "run", prop, "--tier", tier, "--seed", str(seed), "--out", out, "--crash-file", crash]
        p = subprocess.run(cmd, stdout=subprocess.PIPE, stderr=subprocess.STDOUT, text=True)
        if p.returncode in (70, 71) or p.returncode < 0 or (p.returncode != 0 and not os.path.exists(out)):
            kind = "hang" if p.returncode == 71 else "crash"
            verdict, path = triage_crash(prop, v, crash, kind)
            if verdict == "violation":
                violation = (path, f"process {kind} on build {v}")
                break
            log(p.stdout[-2000:])
            write_min_evidence(prop, tier, seed, time.time() - t0, 0, note=f"{kind} on build {v}: {verdict}")
            inconclusive(f"property={prop} build={v}: engine {kind} (exit {p.returncode}), triage: {verdict}")
        rep = json.load(open(out))
        reports[v] = rep
        if rep.get("failure"):
            f = rep["failure"]
            sig = case_sig(f["case"])
            if sig in known_sigs:
                log(f"KNOWN-FINDING: property={prop} {known_sigs[sig].get('what', f['rendered'])}")
                continue
            path = save_replay(prop, {"property": prop, "build": v, "case": f["case"], "message": f["message"],
                                      "rendered": f["rendered"], "generator": f["generator"], "seed": seed})
            log(f"failing case ({f['generator']}, build {v}): {f['rendered']}")
            log(f"  {f['message']}")
            violation = (path, f["message"])
            break
    io_cov = {}
    # Further engines that run under this property as well:
    #  io  - the byte-stream operations of u8 buffers (std::io traits with their provided methods): C01 "every operation",
    #        C04 (results independent of the filling of unoccupied bytes and of where the contents wrap), C11 (total for
    #        every size class, capacity zero included)
    #  zst - zero-sized element types at extreme capacities (they can still own something through Drop): C02 / C03 / C10
    #  big - 4 MiB heap-allocated buffers in an unoptimised build on 2 MiB stacks: C11 "every capacity", C12 "boxed"
    for sub_engine in SUB_ENGINES.get(prop, []):
        if violation:
            break
        if sub_engine == "big":
            bcov, violation = big_run(prop, tier, seed, t0)
            io_cov.update(bcov)
            continue
        if sub_engine in ("huge", "zfull", "reloc", "tiny"):
            scov, violation = simple_sub_run(prop, tier, seed, t0, sub_engine)
            io_cov.update(scov)
            continue
        if sub_engine == "freestanding":
            # the same semantics where no test build can go: crate without std, no allocator, panic = "abort";
            # a seeded model-based self-check (values and destructor counts) inside that program
            import engines
            fcov = engines.freestanding_run(prop, tier, seed)
            fcov.pop("_extra_evaluations", None)
            io_cov["freestanding_no_std_panic_abort_steps"] = sum(fcov["freestanding_no_allocator_program"]["model_checked_steps"].values())
            continue
        if sub_engine == "own":
            # the leak-safety argument needs the drain to be the only handle on the detached elements: compile-time
            # witnesses that Drain (and IterMut) cannot be duplicated
            import c15
            njobs, problems = c15.subset_problems(["own_"], prop)
            io_cov["ownership_witness_compilations"] = njobs
            if problems:
                q, why, rep = problems[0]
                rep["property"] = prop
                path = save_replay(prop, rep)
                log(f"witness {q['name']} ({q['contract']}): {why}")
                violation = (path, why)
            continue
        sub_args = ["io", prop, "--apis", "std"] if sub_engine == "io" else ["zst"]
        for v in ("checked", "release"):
            out = os.path.join(OUT, f"{prop}.{sub_engine}.{v}.json")
            if os.path.exists(out):
                os.remove(out)
            p = subprocess.run([binary(v)] + sub_args + ["--tier", tier, "--seed", str(seed), "--out", out],
                               stdout=subprocess.PIPE, stderr=subprocess.STDOUT, text=True)
            if p.returncode != 0 or not os.path.exists(out):
                log(p.stdout[-1500:])
                write_min_evidence(prop, tier, seed, time.time() - t0, 0, f"{sub_engine} engine exit {p.returncode} on {v}")
                inconclusive(f"property={prop} build={v}: {sub_engine} engine exit {p.returncode}")
            rep = json.load(open(out))
            io_cov[("byte_stream_cases_" if sub_engine == "io" else "zero_sized_element_cases_") + v] = rep["enumerative"]["evaluations"] + rep["proptest"]["evaluations"]
            if rep.get("failure"):
                f = rep["failure"]
                path = save_replay(prop, {"property": prop, "build": v, "engine": sub_engine, "case": f["case"], "message": f["message"],
                                          "rendered": f["rendered"], "generator": f["generator"], "seed": seed})
                log(f"failing {sub_engine}-engine case (build {v}): {f['rendered']}")
                log(f"  {f['message']}")
                violation = (path, f["message"])
                break
    deep_cov = {}
    if tier == "thorough" and not violation:
        deep_cov, violation = deep_tier(prop, seed)
    wall = time.time() - t0
    cov = merge_reports(prop, reports)
    cov.update(io_cov)
    cov["evaluations"] += sum(v for v in io_cov.values() if isinstance(v, int))
    cov.update(deep_cov)
    cov["evaluations"] += deep_cov.get("fuzz_executions", 0) + deep_cov.get("miri_cases", 0)
    cov["regression_cases_replayed"] = nreg
    write_evidence(prop, tier, seed, cov, wall, 1 if violation else 0, [
        "the reference model (written from the crate documentation) is the specification",
        "Tracked elements report every destructor/clone/eq call faithfully to the thread-local ledger",
        "capacities outside the enumerated table behave like those inside it (no capacity-specific code paths besides N == 0)",
    ])
    if violation:
        log(f"VIOLATION property={prop} replay={violation[0]}")
        sys.exit(1)
    log(f"OK property={prop} tier={tier} evaluations={cov['evaluations']} distinct_nontrivial={cov['distinct_nontrivial']} wall={wall:.1f}s")
    sys.exit(0)


SUB_ENGINES = {"C01": ["io", "huge", "freestanding"], "C02": ["zst", "zfull", "huge", "freestanding"], "C03": ["zst", "freestanding", "tiny"], "C04": ["io"], "C07": ["huge", "zst"], "C09": ["own"], "C10": ["zst", "own"], "C11": ["io", "big", "zfull"], "C12": ["big", "tiny", "zst"], "C20": ["reloc"]}


SIMPLE_LABEL = {"huge": "byte_buffers_at_capacities_around_2^32_cases_", "zfull": "full_zero_sized_buffers_at_extreme_capacities_cases_",
                "reloc": "relocation_cases_over_plain_elements_of_1_2_3_4_8_24_bytes_",
                "tiny": "one_and_two_byte_non_copy_element_cases_"}


def simple_sub_run(prop, tier, seed, t0, engine):
    """Engines with a flat report {evaluations, distinct_nontrivial, samples, failure}: `huge` (byte buffers with
    capacities around 2^31..2^32, only the pages around the front are touched) and `zfull` (full zero-sized buffers at
    extreme capacities).  Both run in the assertion-checked and in the release build."""
    cov = {}
    for v in ("checked", "release"):
        build(v)
        out = os.path.join(OUT, f"{prop}.{engine}.{v}.json")
        if os.path.exists(out):
            os.remove(out)
        try:
            p = subprocess.run([binary(v), engine, "--tier", tier, "--seed", str(seed), "--out", out],
                               stdout=subprocess.PIPE, stderr=subprocess.STDOUT, text=True, timeout=3600)
        except subprocess.TimeoutExpired:
            write_min_evidence(prop, tier, seed, time.time() - t0, 0, f"{engine} engine timed out on {v}")
            inconclusive(f"property={prop} build={v}: the {engine} engine exceeded its time limit")
        if p.returncode != 0 or not os.path.exists(out):
            log(p.stdout[-1500:])
            write_min_evidence(prop, tier, seed, time.time() - t0, 0, f"{engine} engine exit {p.returncode} on {v}")
            inconclusive(f"property={prop} build={v}: {engine} engine exit {p.returncode}")
        rep = json.load(open(out))
        cov[SIMPLE_LABEL[engine] + v] = rep["evaluations"]
        cov[engine + "_samples"] = rep.get("samples", [])[:3]
        if rep.get("failure"):
            f = rep["failure"]
            path = save_replay(prop, {"property": prop, "build": v, "engine": engine, "case": f["case"], "message": f["message"],
                                      "rendered": f["rendered"], "generator": "enumerative + proptest" if engine == "huge" else "enumerative", "seed": seed})
            log(f"failing {engine}-engine case (build {v}): {f['rendered']}")
            log(f"  {f['message']}")
            return cov, (path, f["message"])
    return cov, None


def big_run(prop, tier, seed, t0, only=None, ops_prefix=None):
    """Large boxed buffers in the unoptimised build; 6 processes, each announcing a step before running it.
    A process that dies (stack overflow, signal) names the step it died in."""
    build("opt0")
    parts = 6
    procs = []
    for i in range(parts):
        cmd = [binary("opt0"), "big", "--part", f"{i}/{parts}"] + (["--only", str(only)] if only is not None else []) + (["--ops-prefix", ops_prefix] if ops_prefix else [])
        procs.append(subprocess.Popen(cmd, stdout=subprocess.PIPE, stderr=subprocess.STDOUT, text=True))
    evals = nontrivial = 0
    violation = None
    for p in procs:
        try:
            out, _ = p.communicate(timeout=1800)
        except subprocess.TimeoutExpired:
            p.kill()
            write_min_evidence(prop, tier, seed, time.time() - t0, 0, "large-buffer engine timed out")
            inconclusive(f"property={prop}: the large-buffer engine exceeded its time limit")
        steps = [l for l in out.splitlines() if l.startswith("STEP ")]
        done = [l for l in out.splitlines() if l.startswith("DONE ")]
        if done:
            rep = json.loads(done[-1][5:])
            evals += rep["evaluations"]
            nontrivial += rep["distinct_nontrivial"]
            if rep.get("failure") and not violation:
                f = rep["failure"]
                path = save_replay(prop, {"property": prop, "build": "opt0", "engine": "big", "case": f["case"], "message": f["message"],
                                          "generator": "enumerative (large boxed buffers, unoptimised build)", "seed": seed})
                log(f"failing large-buffer case: {json.dumps(f['case'])}")
                log(f"  {f['message']}")
                violation = (path, f["message"])
        elif steps and not violation:
            idx, case = steps[-1].split(" ", 2)[1:]
            tail = " | ".join(out.strip().splitlines()[-3:])
            msg = (f"the process died (exit {p.returncode}) inside this step on a 4 MiB boxed buffer in an unoptimised build with a 2 MiB stack: {tail[-300:]}")
            path = save_replay(prop, {"property": prop, "build": "opt0", "engine": "big", "case": json.loads(case), "case_index": int(idx), "message": msg,
                                      "generator": "enumerative (large boxed buffers, unoptimised build)", "seed": seed})
            log(f"failing large-buffer case: {case}")
            log(f"  {msg}")
            violation = (path, msg)
        elif not violation and p.returncode != 0:
            log(out[-1500:])
            write_min_evidence(prop, tier, seed, time.time() - t0, 0, f"large-buffer engine exit {p.returncode}")
            inconclusive(f"property={prop}: large-buffer engine exit {p.returncode} before any step")
    return {"large_boxed_buffer_cases": evals, "large_boxed_buffer_nontrivial": nontrivial}, violation


def deep_tier(prop, seed):
    """Thorough-tier extras: libFuzzer/ASan campaign and Miri sub-space, where defined for the property."""
    import deep
    cov = {}
    violation = None
    if prop in deep.FUZZ_PROPS:
        c, viol, inc = deep.fuzz_campaign(prop, seed)
        cov.update(c)
        if inc:
            log("NOTE fuzzing part inconclusive: " + inc)
            cov["fuzz_note"] = inc[:500]
        if viol:
            log(f"failing case (libFuzzer): {viol[1]}")
            return cov, viol
    if prop in deep.MIRI_PROPS:
        c, viol, inc = deep.miri_subspace(prop)
        cov.update(c)
        if inc:
            log("NOTE Miri part inconclusive: " + inc)
            cov["miri_note"] = inc[:500]
        if viol:
            log(f"failing case (Miri): {viol[1]}")
            return cov, viol
    return cov, violation


def merge_reports(prop, reports):
    cov = {"evaluations": 0, "distinct_nontrivial": 0, "rule": "", "samples": [], "builds": {}}
    best = 0
    for v, rep in reports.items():
        cov["rule"] = rep.get("rule", cov["rule"])
        b = {}
        dn = 0
        for part in ("enumerative", "proptest"):
            if part in rep:
                r = rep[part]
                cov["evaluations"] += r["evaluations"]
                dn += r["distinct_nontrivial"]
                b[part] = {k: r[k] for k in r if k != "samples"}
                if not cov["samples"] or part == "proptest" and len(cov["samples"]) < 16:
                    cov["samples"] += r["samples"][:8]
        b["wall_s"] = rep.get("wall_s")
        cov["builds"][v] = b
        best = max(best, dn)
    cov["distinct_nontrivial"] = best
    cov["exhaustive"] = all("enumerative" in r and r["enumerative"].get("exhaustive") for r in reports.values()) if reports else False
    cov["exhaustive_scope"] = "every (capacity, front position, length) layout of the listed capacities x every case of the enumerative generator; the proptest histories are sampled"
    cov["note_distinct"] = "distinct_nontrivial is counted per build (the same cases run on every build); the maximum over builds is reported, evaluations are summed over builds"
    return cov


def write_min_evidence(prop, tier, seed, wall, violations, note):
    write_evidence(prop, tier, seed, {"evaluations": 1, "distinct_nontrivial": 2, "rule": "run ended early: " + note,
                                      "samples": [note]}, wall, violations, [])


def replay_cmd(prop, path):
    if prop in ENGINE_A:
        meta = json.load(open(path))
        variants = [meta["build"]] if meta.get("build") in VARIANTS else ["checked", "release"]
        if meta.get("program") and meta.get("source"):
            import c15
            c15.replay(path, prop)
        if meta.get("engine") == "big":
            build("opt0")
            tmp = os.path.join(OUT, "big-replay-case.json")
            os.makedirs(OUT, exist_ok=True)
            json.dump(meta["case"], open(tmp, "w"))
            p = subprocess.run([binary("opt0"), "big", "--case", tmp], stdout=subprocess.PIPE, stderr=subprocess.STDOUT, text=True, timeout=600)
            log(p.stdout.strip()[-1500:])
            done = [l for l in p.stdout.splitlines() if l.startswith("DONE ")]
            if not done or json.loads(done[-1][5:]).get("failure"):
                log(f"VIOLATION property={prop} replay={path}")
                sys.exit(1)
            sys.exit(0)
        bad = False
        for v in variants:
            build(v)
            if meta.get("engine") in ("io", "zst", "huge", "zfull", "reloc", "tiny"):
                p = subprocess.run([binary(v), "replay-" + meta["engine"], path], stdout=subprocess.PIPE, stderr=subprocess.STDOUT, text=True, timeout=120)
                r, out = ("ok" if p.returncode == 0 else "fail"), p.stdout
            else:
                r, out = replay_once(v, prop, path)
            log(f"--- build {v}: {r}")
            log(out.strip())
            bad |= r != "ok"
        if bad:
            log(f"VIOLATION property={prop} replay={path}")
            sys.exit(1)
        sys.exit(0)
    import engines
    engines.replay(prop, path)


def main():
    args = sys.argv[1:]
    if not args:
        print(__doc__)
        sys.exit(64)
    if args[0] == "--setup":
        import engines
        engines.setup()
        return
    prop = args[0]
    tier = os.environ.get("VERIF_TIER", "quick")
    seed = int(os.environ.get("VERIF_SEED", DEFAULT_SEED))
    if "--tier" in args:
        tier = args[args.index("--tier") + 1]
    if "--seed" in args:
        seed = int(args[args.index("--seed") + 1])
    if "--replay" in args:
        return replay_cmd(prop, args[args.index("--replay") + 1])
    if prop in ENGINE_A:
        return engine_a(prop, tier, seed)
    import engines
    engines.run(prop, tier, seed)


if __name__ == "__main__":
    main()
