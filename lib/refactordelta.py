#!/usr/bin/env python3
"""Targeted false-alarm trial: selected behaviour-preserving changes x the checks whose oracles changed after the last
full trial (lib/refactortest.py).  usage: refactordelta.py NAME=C07,C08 NAME2=C09 ...; results in refactors/results_delta.json"""
import json, os, shutil, subprocess, sys, time
ROOT = os.path.dirname(os.path.dirname(os.path.abspath(__file__)))
ENV = dict(os.environ, CARGO_NET_OFFLINE="true", VERIF_EVIDENCE_DIR=os.path.join(ROOT, "out", "trial-evidence-delta"))

def sh(cmd, cwd=None):
    p = subprocess.run(cmd, cwd=cwd, env=ENV, stdout=subprocess.PIPE, stderr=subprocess.STDOUT, text=True)
    return p.returncode, p.stdout

def main():
    rdir = os.path.join(ROOT, "refactors")
    res_path = os.path.join(rdir, "results_delta.json")
    results = json.load(open(res_path)) if os.path.exists(res_path) else {}
    vc = subprocess.run(["git", "-C", ROOT, "rev-parse", "--short", "HEAD"], stdout=subprocess.PIPE, text=True).stdout.strip()
    for spec in sys.argv[1:]:
        prefix, props = spec.split("=")
        name = [f[:-5] for f in sorted(os.listdir(rdir)) if f.endswith(".diff") and f.startswith(prefix + "_")][0]
        wt = "/tmp/refactordelta/wt"
        sh(["git", "-C", "/repo", "worktree", "remove", "--force", wt])
        shutil.rmtree(wt, ignore_errors=True)
        os.makedirs("/tmp/refactordelta", exist_ok=True)
        rc, out = sh(["git", "-C", "/repo", "worktree", "add", "--detach", wt, "HEAD"])
        assert rc == 0, out
        rc, out = sh(["git", "apply", os.path.join(rdir, name + ".diff")], cwd=wt)
        assert rc == 0, out
        print(f"== {name}", flush=True)
        r = {}
        try:
            for p in props.split(","):
                pr = subprocess.run([os.path.join(ROOT, "check"), p, "--tier", "quick"], cwd=ROOT, env=dict(ENV, CBVERIF_REPO=wt), stdout=subprocess.PIPE, stderr=subprocess.STDOUT, text=True)
                out = pr.stdout
                alarm = pr.returncode != 0 or any(l.startswith("VIOLATION") for l in out.splitlines())
                r[p] = {"exit": pr.returncode, "alarm": alarm, "tail": [l for l in out.splitlines() if l.strip()][-3:]}
                print(f"   {p}: {'ALARM' if alarm else 'silent'} exit {pr.returncode}" + (f": {r[p]['tail']}" if alarm else ""), flush=True)
        finally:
            sh(["git", "-C", "/repo", "worktree", "remove", "--force", wt])
            shutil.rmtree(wt, ignore_errors=True)
        results[name] = {"checks": sorted(r), "silent": not any(v["alarm"] for v in r.values()), "alarms": {k: v for k, v in r.items() if v["alarm"]}, "verif_commit": vc}
        json.dump(results, open(res_path, "w"), indent=1)

if __name__ == "__main__":
    main()
