#!/usr/bin/env python3
"""Regenerates /verif/MANIFEST.json from the table below (kept in one place so that it stays valid)."""
import json, os
ROOT = os.path.dirname(os.path.dirname(os.path.abspath(__file__)))

A = "harness (cbverif): Tracked-history interpreter"
CHECKS = {
 "C01": ("exploration", "3.1", "reference-model PBT: exhaustive single-step enumeration over every (capacity, front position, length) layout x op x argument class, a sparse boundary space for capacities up to 1000, seeded proptest histories; independent bounded-deque model over element identities; plus the byte-stream engine and a VecDeque-model engine over byte buffers at capacities around 2^32",
         "Every mutator x every argument class from every layout of capacities 0..=8 (exhaustively) and random histories over 20 capacities up to 1000 agree with an independent bounded-deque model after every step, in an assertion-checked and a release build."),
 "C02": ("exploration", "3.2", "reference-model PBT over element identities (exhaustive layouts x the four insertion calls, all fillings/routes; proptest histories); counter-model engines over zero-sized elements at extreme capacities (nearly empty and full buffers) and a VecDeque-model engine over byte buffers at capacities around 2^32",
         "All four insertion calls from every layout (all construction routes and fillings): the returned element is compared by identity, not by value."),
 "C03": ("exploration", "3.3", "stateful PBT with a per-element ledger (created / where / destroyed) balanced after every step and after the final drop",
         "Every element has exactly one owner at every step and is destroyed exactly once; includes every consumption script of owning iterators and drains in the small scope."),
 "C04": ("exploration", "3.4", "metamorphic PBT: identical observable trace under 7 adversarial fillings of the unoccupied slots and 4 construction routes; ledger flags user code on non-elements",
         "The case space of C01 plus all read-only entry points is re-run with every unoccupied slot overwritten (0x00/0xFF/0x5A/copies of live, held and dead elements) after every step; results must not change and no user code may run on a non-element."),
 "C05": ("fault_enumeration", "3.5", "fault-injection enumeration: k-th destructor call panics, for every k, every destroying op, every layout; ledger oracle for double drops + validity predicate + follow-up history",
         "Every destructor call inside every element-destroying operation is made to panic once; afterwards no element has been destroyed twice and the buffer is a valid, usable sequence."),
 "C06": ("fault_enumeration", "3.6", "fault-injection enumeration: k-th clone / closure / iterator step / comparison panics; ledger oracle for leaks and double drops",
         "Every user-code invocation inside every operation that runs user code is made to panic once; afterwards the buffer is valid and, after the final drop, every element ever created has been destroyed exactly once."),
 "C07": ("exploration", "3.7", "exhaustive accessor agreement by element address and identity; writes through every mutable accessor followed by a full read-back; sparse boundary space for capacities up to 1000; VecDeque-model engine over byte buffers at capacities around 2^32",
         "All accessors agree on address and identity for every position 0..=len+1 and usize::MAX from every layout; a write through each mutable accessor changes exactly that position."),
 "C08": ("exploration", "3.8", "exhaustive next/next_back scripts against a double-ended queue model, exact len/size_hint at every step; proptest scripts over clone/nth/nth_back/rev/fold/count/last",
         "Every interleaving of next/next_back of length selected+2 over every range spelling from every layout, for iter, iter_mut, range, range_mut, into_iter and the Default iterators."),
 "C09": ("exploration", "3.9", "exhaustive drain scripts (range x next/next_back/adaptor script x drop; consumption through for_each / all / find_map / reduce with a panicking closure) against the model by identity; sparse boundary space for larger capacities; compile-time must-reject witnesses that a Drain cannot be duplicated",
         "Every range in every RangeBounds spelling x every consumption script from every layout; yielded ids, exact len, remaining contents and destruction of the un-yielded part are checked."),
 "C10": ("exploration", "3.10", "exhaustive drain scripts (including skipping consumers that run past either end) ending in mem::forget, validity predicate + follow-up history + ledger; zero-sized element engine; compile-time must-reject witnesses that a Drain cannot be duplicated",
         "The drain is forgotten after every prefix of every script; the buffer must stay a valid subset of the original contents minus the yielded elements, keep working, and nothing is ever destroyed twice."),
 "C11": ("exploration", "3.11", "exhaustive argument enumeration (indices 0..=N+1, usize::MAX, every bound pair, out-of-range skip counts) against the model's must-panic predicate, both directions; watchdog for termination; byte-stream engine; every by-reference operation on 4 MiB boxed buffers in an unoptimised build on 2 MiB stacks against a VecDeque model",
         "Every public operation with every index / bound combination: panics exactly when documented, state unchanged after a documented panic; termination observed under a watchdog."),
 "C12": ("exploration", "3.12", "reference-model PBT with ledger identity: moves keep ids, clones have fresh ids with the right origin, independent ownership; destructor faults among the discarded elements of array / iterator conversions; non-fused generated iterators; sparse boundary space for capacities up to 1000; 4 MiB boxed buffers in an unoptimised build",
         "Constructors and conversions for every source length 0..=2N+1 and every source/destination layout."),
 "C20": ("exploration", "3.20", "exhaustive relocation counting: surviving element identities whose address changed, against the documented bound",
         "Relocations are counted through element addresses before and after every listed operation from every layout."),
 "C13": ("exploration", "3.13", "exhaustive pairwise PBT: all capacity pairs x all layouts of both sides x all contents over a small alphabet, expected results computed from the logical sequences; Debug under 32 format strings; proptest for wider capacities",
         "Every split of one side into two physical segments meets every split of the other, for ==, partial_cmp, cmp, hash and all slice/array/reference partners, including NaN contents and heterogeneous element types."),
 "C14": ("exploration", "3.14", "reference-model PBT with a byte-queue model: exhaustive single and double steps with every size class from every layout, unoccupied bytes filled adversarially; proptest histories; the byte-stream steps on a 4 MiB boxed buffer in an unoptimised build",
         "write/read/fill_buf/consume/flush (and the provided methods users call) with every length class from every layout of capacities 0..=8, then random histories up to capacity 256."),
 "C15": ("exploration", "3.15", "grammar-generated client programs compiled with rustc against the current tree; differential against the same program over VecDeque / arrays / slices plus the expectation table",
         "The quantifier is over programs: about 360 witness programs (borrow held, outlive, variance, auto traits, single ownership, const contexts, bound-free impls) are generated and compiled; must-reject programs must fail for a borrow/lifetime/trait reason while their must-accept twins compile."),
 "C16": ("exploration", "3.16", "differential PBT: embedded-io / embedded-io-async calls vs std::io calls on a twin buffer in the same state (counts, bytes, contents, physical layout), under the three feature builds; async polled once; for builds of the crate without std, trace digests of the same generated histories compared across builds",
         "The C14 case space is replayed through the embedded-io traits with a std::io twin; counts, bytes, fill_buf slices and contents must be identical, never Err, never Pending."),
 "C17": ("exploration", "3.17", "PBT with a counting global allocator around every single crate call (including provided std::io methods and their error paths), in three feature configurations; core-only sysroot builds, no-std builds of every embedded-io feature combination, and a freestanding no-allocator program with a seeded model-based self-check for the no_std sentence",
         "Every operation (including creation, each step and the drop of iterators/drains) performs zero allocations in builds of the crate with {std}, {} and {alloc}; the library also builds against a core-only and a core+alloc sysroot."),
 "C18": ("exploration", "3.18", "differential PBT across builds: per-unit trace digests of the complete C01-C12/C20 case spaces, stable default build vs nightly + unstable feature; the unstable build also runs every oracle",
         "Same generated cases (pure function of the seed) in both builds; results, contents, panic flags, lifecycle events and injected-fault outcomes must be identical."),
 "C19": ("exploration", "3.19", "counter-model PBT over a drop-counting zero-sized element at 13 extreme capacities and over full buffers of a destructor-free zero-sized element at 7 extreme capacities, assertion/overflow-checked and release builds; capacity-independence differential",
         "Front positions just below N (where position arithmetic exceeds the machine word) and near 0, every operation whose cost does not depend on N, boundary arguments and every bound pair."),
}

NOT_YET = {}

def main():
    checks = []
    for pid in sorted(CHECKS):
        level, ref, tech, text = CHECKS[pid][:4]
        checks.append({
            "property_id": pid,
            "quick_cmd": f"./check {pid} --tier quick",
            "thorough_cmd": f"./check {pid} --tier thorough",
            "evidence_file": f"evidence/{pid}.json",
            "replay_cmd_template": f"./check {pid} --replay {{path}}",
            "engine": "c15" if pid == "C15" else "cbverif",
            "level_claimed": {"category": level, "text": text, "design_ref": f"DESIGN.md {ref}"},
            "level_note": "Trusted base: the reference model / oracle written from the crate documentation, the Tracked element ledger, rustc and the standard library. Exhaustive only for the stated small scope; larger capacities and long histories are sampled.",
            "technique": tech,
        })
    props = [json.loads(l)["id"] for l in open(os.path.join(ROOT, "properties.jsonl"))]
    na = [{"property_id": p, "reason": NOT_YET.get(p, "check under construction in this session; not claimed until its engine is committed")} for p in props if p not in CHECKS]
    m = {
        "version": 1,
        "setup_cmd": "./check --setup",
        "hooks": {
            "guard": "circular_buffer_verif",
            "enable": "none needed: all checks observe the crate through its public API, element addresses and a counting allocator (the cfg name is reserved but unused)",
            "baseline_off_cmd": "cd /repo && cargo test --workspace --no-fail-fast --offline",
            "source_commits": [],
            "add_only": True,
        },
        "engines": [
            {"name": "cbverif", "path": "harness", "serves_properties": [p for p in sorted(CHECKS) if p != "C15"], "kind_free_text": "Rust harness: enumerative + proptest generators; interpreter with reference model and element ledger (C01-C12, C20), pair-comparison engine (C13), byte-I/O engine (C14, C16), counting-allocator engine (C17), zero-sized/extreme-capacity engines (C19), large-boxed-buffer and 2^32-capacity engines, embedded-io trace engine, cross-build digests (C18); plus the freestanding no-allocator program in /verif/freestanding; driven by ./check (python)"},
            {"name": "c15", "path": "lib/c15.py", "serves_properties": ["C15"], "kind_free_text": "witness-program generator + rustc as the judge"},
        ],
        "checks": checks,
        "not_applicable": na,
        "notes": "All checks honour VERIF_SEED and VERIF_TIER. Exit 2 + INCONCLUSIVE means the harness could not build or a watchdog fired. known_findings.json lists genuine defects (all six found so far are fixed by 'fix:' commits in /repo).",
    }
    json.dump(m, open(os.path.join(ROOT, "MANIFEST.json"), "w"), indent=1)

if __name__ == "__main__":
    main()
