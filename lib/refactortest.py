#!/usr/bin/env python3
"""False-alarm trials: applies each behaviour-preserving change of /verif/refactors to /repo, runs the quick tier
of every check (all must exit 0 without a VIOLATION line) and reverts.  usage: refactortest.py [name-prefix ...]"""
import json, os, subprocess, sys, time
ROOT = os.path.dirname(os.path.dirname(os.path.abspath(__file__)))
ENV = dict(os.environ, CARGO_NET_OFFLINE="true", VERIF_EVIDENCE_DIR=os.path.join(ROOT, "out", "trial-evidence"))
ALL = [f"C{i:02d}" for i in range(1, 21)]

def sh(cmd, cwd=None):
    p = subprocess.run(cmd, cwd=cwd, env=ENV, stdout=subprocess.PIPE, stderr=subprocess.STDOUT, text=True)
    return p.returncode, p.stdout

def main():
    want = sys.argv[1:]
    rdir = os.path.join(ROOT, "refactors")
    res_path = os.path.join(rdir, "results.json")
    results = json.load(open(res_path)) if os.path.exists(res_path) else {}
    for name in sorted(f[:-5] for f in os.listdir(rdir) if f.endswith(".diff")):
        if want and not any(name.startswith(w) for w in want):
            continue
        # against a scratch worktree (CBVERIF_REPO), so that /repo itself is never touched
        import shutil
        wt = "/tmp/refactorscratch/wt"
        sh(["git", "-C", "/repo", "worktree", "remove", "--force", wt])
        shutil.rmtree(wt, ignore_errors=True)
        os.makedirs("/tmp/refactorscratch", exist_ok=True)
        rc, out = sh(["git", "-C", "/repo", "worktree", "add", "--detach", wt, "HEAD"])
        assert rc == 0, out
        rc, out = sh(["git", "apply", os.path.join(rdir, name + ".diff")], cwd=wt)
        assert rc == 0, out
        print(f"== {name}", flush=True)
        r = {}
        env2 = dict(ENV, CBVERIF_REPO=wt)
        try:
            for p in ALL:
                t0 = time.time()
                pr = subprocess.run([os.path.join(ROOT, "check"), p, "--tier", "quick"], cwd=ROOT, env=env2, stdout=subprocess.PIPE, stderr=subprocess.STDOUT, text=True)
                rc, out = pr.returncode, pr.stdout
                alarm = rc != 0 or any(l.startswith("VIOLATION") for l in out.splitlines())
                r[p] = {"exit": rc, "alarm": alarm, "tail": [l for l in out.splitlines() if l.strip()][-3:]}
                if alarm:
                    print(f"   {p}: ALARM exit {rc}: {r[p]['tail']}", flush=True)
        finally:
            sh(["git", "-C", "/repo", "worktree", "remove", "--force", wt])
            shutil.rmtree(wt, ignore_errors=True)
        results[name] = {"silent": not any(v["alarm"] for v in r.values()), "alarms": {k: v for k, v in r.items() if v["alarm"]},
                         "repo_commit": subprocess.run(["git", "-C", "/repo", "rev-parse", "--short", "HEAD"], stdout=subprocess.PIPE, text=True).stdout.strip()}
        print(f"   silent on all 20: {results[name]['silent']}", flush=True)
        json.dump(results, open(res_path, "w"), indent=1)

if __name__ == "__main__":
    main()
