#!/usr/bin/env python3
"""Sensitivity trials: applies each mutant of mutants/list.py (or a patch file) to a scratch copy of
/repo, checks that it compiles and whether the repository's own tests notice it, then runs the
quick engine of the given properties against the copy.  Never touches /repo.
usage: mutate.py [--only id,id] [--props C01,C02] [--skip-suite] [--patch file --id name]"""
import json, os, shutil, subprocess, sys, importlib.util, time
ROOT = os.path.dirname(os.path.dirname(os.path.abspath(__file__)))
WORK = "/var/tmp/cbmut"
ENV = dict(os.environ, CARGO_NET_OFFLINE="true")
ALL_A = ["C01","C02","C03","C04","C05","C06","C07","C08","C09","C10","C11","C12","C20"]

def sh(cmd, cwd=None, timeout=1800):
    p = subprocess.run(cmd, cwd=cwd, env=ENV, stdout=subprocess.PIPE, stderr=subprocess.STDOUT, text=True, timeout=timeout)
    return p.returncode, p.stdout

def prepare():
    os.makedirs(WORK, exist_ok=True)
    repo = os.path.join(WORK, "repo")
    if os.path.exists(repo):
        shutil.rmtree(repo)
    sh(["rsync", "-a", "--exclude", "target", "--exclude", ".git", "/repo/", repo + "/"])
    h = os.path.join(WORK, "harness")
    sh(["rsync", "-a", "--delete", "--exclude", "target", os.path.join(ROOT, "harness") + "/", h + "/"])
    ct = open(os.path.join(h, "Cargo.toml")).read().replace('path = "/repo"', f'path = "{repo}"')
    open(os.path.join(h, "Cargo.toml"), "w").write(ct)
    return repo, h

def main():
    args = sys.argv[1:]
    only = args[args.index("--only")+1].split(",") if "--only" in args else None
    props = args[args.index("--props")+1].split(",") if "--props" in args else None
    skip_suite = "--skip-suite" in args
    spec = importlib.util.spec_from_file_location("ml", os.path.join(ROOT, "mutants", "list.py"))
    ml = importlib.util.module_from_spec(spec); spec.loader.exec_module(ml)
    repo, h = prepare()
    results = {}
    for (mid, f, old, new, expect) in ml.M:
        if only and mid not in only: continue
        src = open(os.path.join("/repo", f)).read()
        if src.count(old) != 1:
            print(f"{mid}: PATTERN matches {src.count(old)} times - skipped"); results[mid] = "pattern"; continue
        open(os.path.join(repo, f), "w").write(src.replace(old, new))
        rc, out = sh(["cargo", "build", "--offline", "--release", "--target-dir", os.path.join(WORK, "t_repo")], cwd=repo)
        if rc != 0:
            print(f"{mid}: does not compile\n" + "\n".join(out.splitlines()[-15:])); results[mid] = "nocompile"
            open(os.path.join(repo, f), "w").write(src); continue
        suite = "skipped"
        if not skip_suite:
            rc, out = sh(["cargo", "test", "--offline", "--lib", "--tests", "--target-dir", os.path.join(WORK, "t_repo")], cwd=repo)
            suite = "passes" if rc == 0 else "KILLED-BY-SUITE"
        caught = {}
        for variant, pargs in (("release", ["--release"]), ("checked", ["--profile", "checked"])):
            rc, out = sh(["cargo", "build", "--offline", "--bin", "cbverif", "--target-dir", os.path.join(WORK, "t_h")] + pargs, cwd=h)
            if rc != 0:
                print(out[-1500:]); caught["build"] = "harness build failed"; break
            binp = os.path.join(WORK, "t_h", "release" if variant == "release" else "checked", "cbverif")
            for p in (props or ALL_A + ["C13", "C14", "C17", "C19"]):
                o = os.path.join(WORK, f"{p}.json")
                if os.path.exists(o): os.remove(o)
                sub = {"C13": ["cmp"], "C14": ["io", "C14", "--apis", "std"], "C17": ["alloc"], "C19": ["zst"]}.get(p, ["run", p, "--crash-file", o + ".crash"])
                try:
                    rc, out = sh([binp] + sub + ["--tier", "quick", "--out", o], timeout=600)
                except subprocess.TimeoutExpired:
                    caught.setdefault(p, []).append(f"{variant}:timeout"); continue
                if rc != 0:
                    caught.setdefault(p, []).append(f"{variant}:exit{rc}")
                elif json.load(open(o)).get("failure"):
                    fl = json.load(open(o))["failure"]
                    caught.setdefault(p, []).append(f"{variant}:{fl['rendered'][:90]} :: {fl['message'][:110]}")
        open(os.path.join(repo, f), "w").write(src)
        miss = [e for e in expect if e in (props or ALL_A + ['C13', 'C14', 'C17', 'C19']) and e not in caught]
        print(f"== {mid}: suite {suite}; caught by {sorted(caught)}" + (f"  MISSED-EXPECTED {miss}" if miss else ""))
        for p, v in sorted(caught.items()):
            print(f"     {p}: {v[0] if isinstance(v, list) else v}")
        results[mid] = {"suite": suite, "caught": {k: v for k, v in caught.items()}}
        sys.stdout.flush()
    json.dump(results, open(os.path.join(ROOT, "out", "mutants_result.json"), "w"), indent=1)

if __name__ == "__main__":
    main()
