"""Thorough-tier extras: coverage-guided fuzzing (cargo-fuzz / libFuzzer + AddressSanitizer) and a Miri
sub-space.  Both feed the same interpreter and oracles as the other generators (DESIGN 2.3/3, 2.5)."""
import glob
import json
import os
import shutil
import subprocess
import time

import cbcheck as cc

FUZZ_DIR = os.path.join(cc.ROOT, "fuzz")
FUZZ_BIN = os.path.join(FUZZ_DIR, "target", "x86_64-unknown-linux-gnu", "release")
FUZZ_PROPS = {"C01": "history", "C03": "history", "C09": "history", "C10": "history", "C14": "bytes_io"}
MIRI_PROPS = {"C03": (3, 5), "C04": (3, 12), "C07": (3, 5)}  # property: (max capacity, stride over the cases of a unit)


def fuzz_build():
    lock = os.path.join(FUZZ_DIR, "Cargo.lock")
    if not os.path.exists(lock):
        shutil.copy(os.path.join(cc.HARNESS, "Cargo.lock"), lock)
    p = subprocess.run(["cargo", "+nightly", "fuzz", "build", "--fuzz-dir", FUZZ_DIR], cwd=FUZZ_DIR, env=cc.ENV,
                       stdout=subprocess.PIPE, stderr=subprocess.STDOUT, text=True)
    return p.returncode == 0, "\n".join(p.stdout.splitlines()[-25:])


def fuzz_campaign(prop, seed, runs=120000, procs=16):
    """Fixed-work campaign: `procs` independent libFuzzer processes, each `runs` executions from a fresh corpus.
    Returns (coverage dict, violation or None, inconclusive message or None)."""
    target = FUZZ_PROPS[prop]
    ok, out = fuzz_build()
    if not ok:
        return {}, None, "cargo fuzz build failed:\n" + out
    work = os.path.join(cc.OUT, "fuzz", prop)
    shutil.rmtree(work, ignore_errors=True)
    os.makedirs(work)
    procs_l = []
    t0 = time.time()
    for i in range(procs):
        corpus = os.path.join(work, f"corpus{i}")
        os.makedirs(corpus)
        # half of the processes start from a few short structured inputs, half from nothing
        if i % 2 == 1:
            for k in range(8):
                with open(os.path.join(corpus, f"seed{k}"), "wb") as f:
                    f.write(bytes((k * 37 + j * 11 + i) % 256 for j in range(24 + 8 * k)))
        env = dict(cc.ENV, CBVERIF_FUZZ_PROP=prop, ASAN_OPTIONS="detect_leaks=0:abort_on_error=1")
        log = open(os.path.join(work, f"log{i}.txt"), "w")
        p = subprocess.Popen([os.path.join(FUZZ_BIN, target), corpus, f"-runs={runs}", f"-seed={seed + i + 1}", "-max_len=512", "-len_control=0",
                              "-print_final_stats=1", f"-artifact_prefix={work}/artifact{i}-"], stdout=log, stderr=subprocess.STDOUT, env=env)
        procs_l.append((p, log))
    execs = 0
    bad = []
    for i, (p, log) in enumerate(procs_l):
        rc = p.wait()
        log.close()
        text = open(os.path.join(work, f"log{i}.txt"), errors="replace").read()
        for line in text.splitlines():
            if line.startswith("stat::number_of_executed_units:"):
                execs += int(line.split(":")[-1])
        if rc != 0:
            bad.append((i, rc, text))
    cov = {"fuzz_target": target, "fuzz_processes": procs, "fuzz_runs_per_process": runs, "fuzz_executions": execs,
           "fuzz_wall_s": round(time.time() - t0, 1), "fuzz_corpus_files": len(glob.glob(os.path.join(work, "corpus*", "*")))}
    if not bad:
        return cov, None, None
    # a process stopped: decode its artefact, re-check it in the ordinary build, and only then report
    for i, rc, text in bad:
        arts = sorted(glob.glob(os.path.join(work, f"artifact{i}-*")))
        if not arts:
            continue
        art = arts[0]
        dec = subprocess.run([cc.binary("release"), "decode-fuzz", target, art], stdout=subprocess.PIPE, stderr=subprocess.STDOUT, text=True)
        try:
            case = json.loads(dec.stdout.strip().splitlines()[-1])
        except Exception:
            return cov, None, f"could not decode fuzz artefact {art}: {dec.stdout[-300:]}"
        tmp = os.path.join(work, f"decoded{i}.json")
        json.dump({"case": case}, open(tmp, "w"))
        sub = ["replay", prop, tmp] if target == "history" else ["replay-io", tmp]
        verdicts = []
        for v in ("checked", "release"):
            r = subprocess.run([cc.binary(v)] + sub, stdout=subprocess.PIPE, stderr=subprocess.STDOUT, text=True)
            verdicts.append((v, r.returncode, r.stdout))
        oracle = [l for l in text.splitlines() if l.startswith("ORACLE-FAILURE")]
        asan = [l for l in text.splitlines() if "ERROR: AddressSanitizer" in l]
        msg = (oracle[0] if oracle else (asan[0] if asan else f"fuzz process exited with status {rc}"))
        if any(rc2 != 0 for _, rc2, _ in verdicts) or asan:
            path = cc.save_replay(prop, {"property": prop, "build": "checked", "case": case, "generator": "libFuzzer", "message": msg,
                                         "fuzz_artifact": art, "sanitizer_report": asan[:1]})
            return cov, (path, msg), None
        return cov, None, f"fuzz process {i} stopped ({msg}) but the decoded case passes in the ordinary builds; artefact kept at {art}"
    return cov, None, f"fuzz processes stopped without an artefact: {[(i, rc) for i, rc, _ in bad]}"


def miri_subspace(prop, procs=16):
    """Runs the enumerative cases of small capacities under Miri (uninitialised reads, aliasing, out-of-bounds,
    invalid values have no observable effect natively).  Free slots are de-initialised instead of filled."""
    maxn, stride = MIRI_PROPS[prop]
    tdir = os.path.join(cc.TARGET, "miri")
    env = dict(cc.ENV, MIRIFLAGS="-Zmiri-disable-isolation -Zmiri-ignore-leaks")
    b = subprocess.run(["cargo", "+nightly", "miri", "setup"], cwd=cc.HARNESS, env=env, stdout=subprocess.PIPE, stderr=subprocess.STDOUT, text=True)
    if b.returncode != 0:
        return {}, None, "cargo miri setup failed: " + b.stdout[-500:]
    t0 = time.time()
    ps = []
    work = os.path.join(cc.OUT, "miri", prop)
    shutil.rmtree(work, ignore_errors=True)
    os.makedirs(work)
    # build once (the first process compiles, the others would race for the lock anyway)
    first = subprocess.run(["cargo", "+nightly", "miri", "run", "--offline", "--target-dir", tdir, "--bin", "cbverif", "--", "miri", prop, "0", "100000", "0"],
                           cwd=cc.HARNESS, env=env, stdout=subprocess.PIPE, stderr=subprocess.STDOUT, text=True)
    if first.returncode != 0:
        return {}, None, "building the harness for Miri failed: " + first.stdout[-800:]
    for i in range(procs):
        log = open(os.path.join(work, f"log{i}.txt"), "w")
        p = subprocess.Popen(["cargo", "+nightly", "miri", "run", "--offline", "--target-dir", tdir, "--bin", "cbverif", "--",
                              "miri", prop, str(i), str(procs), str(maxn), str(stride)], cwd=cc.HARNESS, env=env, stdout=log, stderr=subprocess.STDOUT)
        ps.append((p, log))
    cases = 0
    bad = []
    for i, (p, log) in enumerate(ps):
        rc = p.wait()
        log.close()
        text = open(os.path.join(work, f"log{i}.txt"), errors="replace").read()
        for line in text.splitlines():
            if line.startswith("MIRI-OK cases="):
                cases += int(line.split("=")[1])
        if rc != 0:
            bad.append((i, rc, text))
    cov = {"miri_cases": cases, "miri_max_capacity": maxn, "miri_case_stride": stride, "miri_wall_s": round(time.time() - t0, 1)}
    if not bad:
        # second pass: the same sub-space (three times sparser) interpreted for a 32-bit target, where usize, the
        # layout of the buffer and every cfg(target_pointer_width) arm differ
        t1 = time.time()
        tdir32 = os.path.join(cc.TARGET, "miri32")
        tgt = ["--target", "i686-unknown-linux-gnu"]
        b = subprocess.run(["cargo", "+nightly", "miri", "setup"] + tgt, cwd=cc.HARNESS, env=env, stdout=subprocess.PIPE, stderr=subprocess.STDOUT, text=True)
        first = subprocess.run(["cargo", "+nightly", "miri", "run", "--offline"] + tgt + ["--target-dir", tdir32, "--bin", "cbverif", "--", "miri", prop, "0", "100000", "0"],
                               cwd=cc.HARNESS, env=env, stdout=subprocess.PIPE, stderr=subprocess.STDOUT, text=True) if b.returncode == 0 else b
        if first.returncode != 0:
            cov["miri_32bit_note"] = "the 32-bit Miri pass could not be built: " + first.stdout[-300:]
            return cov, None, None
        ps32 = []
        for i in range(procs):
            log = open(os.path.join(work, f"log32_{i}.txt"), "w")
            p = subprocess.Popen(["cargo", "+nightly", "miri", "run", "--offline"] + tgt + ["--target-dir", tdir32, "--bin", "cbverif", "--",
                                  "miri", prop, str(i), str(procs), str(maxn), str(stride * 3)], cwd=cc.HARNESS, env=env, stdout=log, stderr=subprocess.STDOUT)
            ps32.append((p, log))
        cases32 = 0
        for i, (p, log) in enumerate(ps32):
            rc = p.wait()
            log.close()
            text = open(os.path.join(work, f"log32_{i}.txt"), errors="replace").read()
            for line in text.splitlines():
                if line.startswith("MIRI-OK cases="):
                    cases32 += int(line.split("=")[1])
            if rc != 0:
                bad.append((i, rc, text))
        cov["miri_32bit_target_cases"] = cases32
        cov["miri_32bit_wall_s"] = round(time.time() - t1, 1)
        cov["miri_cases"] = cases + cases32
        if not bad:
            return cov, None, None
        tdir = tdir32
    i, rc, text = bad[0]
    fail = [l for l in text.splitlines() if l.startswith("MIRI-FAIL ")]
    if fail:
        case = json.loads(fail[0].split(" ", 2)[1])
        path = cc.save_replay(prop, {"property": prop, "build": "checked", "case": case, "generator": "enumerative (under Miri)", "message": fail[0].split(" ", 2)[2]})
        return cov, (path, fail[0][:300]), None
    ub = [l for l in text.splitlines() if "Undefined Behavior" in l or l.startswith("error:")]
    units = [l for l in text.splitlines() if l.startswith("UNIT ")]
    if ub:
        # find the case: re-run the last unit with tracing
        last_unit = units[-1] if units else "UNIT ?"
        env2 = dict(env, CBVERIF_TRACE="1")
        is32 = tdir.endswith("miri32")
        r = subprocess.run(["cargo", "+nightly", "miri", "run", "--offline"] + (["--target", "i686-unknown-linux-gnu"] if is32 else []) + ["--target-dir", tdir, "--bin", "cbverif", "--",
                            "miri", prop, str(i), str(procs), str(maxn), str(stride * 3 if is32 else stride)], cwd=cc.HARNESS, env=env2, stdout=subprocess.PIPE, stderr=subprocess.STDOUT, text=True)
        cases_l = [l for l in r.stdout.splitlines() if l.startswith("CASE ")]
        case = json.loads(cases_l[-1][5:]) if cases_l else None
        rep = os.path.join(cc.REPLAYS, f"{prop}-miri-report.txt")
        os.makedirs(cc.REPLAYS, exist_ok=True)
        open(rep, "w").write(text[-6000:])
        path = cc.save_replay(prop, {"property": prop, "build": "miri", "case": case, "generator": "enumerative (under Miri)",
                                     "message": "Miri reports undefined behaviour while running this case: " + ub[0], "miri_report": rep, "unit": last_unit})
        return cov, (path, ub[0][:300]), None
    return cov, None, f"a Miri process exited with status {rc} without a recognisable report (log {work}/log{i}.txt)"
