#!/usr/bin/env python3
"""Confirms a seeded change (seeded/<id>/patch.diff + demo) in a scratch worktree and runs the registered
checks against it by applying it to /repo and reverting straight afterwards.
usage: seedtest.py <seeded dir> <breaks-property> [props to run, comma separated | all] [--skip-verify]"""
import json, os, re, shutil, subprocess, sys, time
ROOT = os.path.dirname(os.path.dirname(os.path.abspath(__file__)))
ENV = dict(os.environ, CARGO_NET_OFFLINE="true", VERIF_EVIDENCE_DIR=os.path.join(ROOT, "out", "trial-evidence"))
ALL = [f"C{i:02d}" for i in range(1, 21)]

def sh(cmd, cwd=None, timeout=3600):
    p = subprocess.run(cmd, cwd=cwd, env=ENV, stdout=subprocess.PIPE, stderr=subprocess.STDOUT, text=True, timeout=timeout)
    return p.returncode, p.stdout

def verify(sdir):
    wt = "/tmp/seedverify/wt" + os.environ.get("SEEDTEST_SLOT", "")
    sh(["git", "-C", "/repo", "worktree", "remove", "--force", wt])
    shutil.rmtree(wt, ignore_errors=True)
    os.makedirs("/tmp/seedverify", exist_ok=True)
    rc, out = sh(["git", "-C", "/repo", "worktree", "add", "--detach", wt, "HEAD"])
    assert rc == 0, out
    res = {}
    tgt = ["--target-dir", "/tmp/seedverify/target" + os.environ.get("SEEDTEST_SLOT", "")]
    try:
        rc, out = sh(["git", "apply", os.path.join(sdir, "patch.diff")], cwd=wt)
        res["patch_applies"] = rc == 0
        if rc != 0:
            res["apply_output"] = out[-500:]
            return res
        rc, out = sh(["cargo", "build", "--offline", "--release"] + tgt, cwd=wt)
        res["compiles_release"] = rc == 0
        rc, out = sh(["cargo", "test", "--offline", "--lib", "--tests", "--no-fail-fast"] + tgt, cwd=wt)
        passed = sum(int(m) for m in re.findall(r"test result: ok\. (\d+) passed", out))
        res["suite_with_change"] = {"exit": rc, "passed": passed}
        demo = os.path.join(sdir, "seeded_demo.rs")
        if os.path.exists(demo):
            shutil.copy(demo, os.path.join(wt, "tests", "seeded_demo.rs"))
            rc, out = sh(["cargo", "test", "--offline", "--test", "seeded_demo"] + tgt, cwd=wt)
            res["demo_with_change_fails"] = rc != 0
            sh(["git", "checkout", "--", "src"], cwd=wt)
            rc, out = sh(["cargo", "test", "--offline", "--test", "seeded_demo"] + tgt, cwd=wt)
            res["demo_without_change_passes"] = rc == 0
    finally:
        sh(["git", "-C", "/repo", "worktree", "remove", "--force", wt])
        shutil.rmtree(wt, ignore_errors=True)
    return res

def run_checks_scratch(sdir, props):
    """Like run_checks, but against a scratch worktree (CBVERIF_REPO) so that /repo stays untouched."""
    wt = "/tmp/seedscratch/wt" + os.environ.get("SEEDTEST_SLOT", "")
    sh(["git", "-C", "/repo", "worktree", "remove", "--force", wt])
    shutil.rmtree(wt, ignore_errors=True)
    os.makedirs("/tmp/seedscratch", exist_ok=True)
    rc, out = sh(["git", "-C", "/repo", "worktree", "add", "--detach", wt, "HEAD"])
    assert rc == 0, out
    rc, out = sh(["git", "apply", os.path.join(sdir, "patch.diff")], cwd=wt)
    assert rc == 0, out
    results = {}
    env = dict(ENV, CBVERIF_REPO=wt)
    try:
        for p in props:
            t0 = time.time()
            pr = subprocess.run([os.path.join(ROOT, "check"), p, "--tier", "quick"], cwd=ROOT, env=env, stdout=subprocess.PIPE, stderr=subprocess.STDOUT, text=True, timeout=3600)
            out = pr.stdout
            viol = [l for l in out.splitlines() if l.startswith("VIOLATION")]
            tail = [l for l in out.splitlines() if l.strip()][-4:]
            results[p] = {"exit": pr.returncode, "violation": bool(viol), "seconds": round(time.time() - t0, 1), "output_tail": tail, "scratch_worktree": True}
            print(f"   {p}: exit {pr.returncode} {'VIOLATION' if viol else ''} ({time.time()-t0:.0f}s) {tail[-2] if len(tail) > 1 else ''}"[:260], flush=True)
    finally:
        sh(["git", "-C", "/repo", "worktree", "remove", "--force", wt])
        shutil.rmtree(wt, ignore_errors=True)
    return results

def run_checks(sdir, props):
    st = subprocess.run(["git", "-C", "/repo", "status", "--porcelain", "--untracked-files=no"], stdout=subprocess.PIPE, text=True).stdout.strip()
    assert st == "", "/repo working tree is not clean: " + st
    rc, out = sh(["git", "-C", "/repo", "apply", os.path.join(sdir, "patch.diff")])
    assert rc == 0, out
    results = {}
    try:
        for p in props:
            t0 = time.time()
            rc, out = sh([os.path.join(ROOT, "check"), p, "--tier", "quick"], cwd=ROOT, timeout=3600)
            viol = [l for l in out.splitlines() if l.startswith("VIOLATION")]
            tail = [l for l in out.splitlines() if l.strip()][-4:]
            results[p] = {"exit": rc, "violation": bool(viol), "seconds": round(time.time() - t0, 1), "output_tail": tail}
            print(f"   {p}: exit {rc} {'VIOLATION' if viol else ''} ({time.time()-t0:.0f}s) {tail[-2] if len(tail) > 1 else ''}"[:260], flush=True)
    finally:
        sh(["git", "-C", "/repo", "checkout", "--", "."])
    return results

def main():
    sdir = os.path.abspath(sys.argv[1])
    breaks = sys.argv[2]
    props = ALL if (len(sys.argv) < 4 or sys.argv[3] == "all" or sys.argv[3].startswith("--")) else sys.argv[3].split(",")
    meta_path = os.path.join(sdir, "meta.json")
    meta = json.load(open(meta_path)) if os.path.exists(meta_path) else {}
    meta["breaks_property"] = breaks
    print(f"== {os.path.basename(sdir)} (breaks {breaks})", flush=True)
    if "--skip-verify" not in sys.argv:
        meta["confirmation"] = verify(sdir)
        print("   confirmation:", meta["confirmation"], flush=True)
    meta.setdefault("checks", {}).update(run_checks_scratch(sdir, props) if "--scratch" in sys.argv else run_checks(sdir, props))
    meta["caught_by"] = sorted(p for p, r in meta["checks"].items() if r["violation"])
    meta["repo_commit"] = subprocess.run(["git", "-C", "/repo", "rev-parse", "--short", "HEAD"], stdout=subprocess.PIPE, text=True).stdout.strip()
    json.dump(meta, open(meta_path, "w"), indent=1)
    print(f"   caught by: {meta['caught_by']}", flush=True)

if __name__ == "__main__":
    main()
