"""Engines other than the Tracked-history interpreter (C13-C19)."""
import sys
import cbcheck as cc


def setup():
    ok = True
    for v in ["release", "checked"]:
        r, info = cc.build(v, fatal=False)
        cc.log(f"build {v}: {'ok ' + info if r else 'FAILED'}")
        if not r:
            cc.log(info)
            ok = False
    sys.exit(0 if ok else 1)


def run(prop, tier, seed):
    cc.inconclusive(f"property {prop} has no engine yet")


def replay(prop, path):
    cc.inconclusive(f"property {prop} has no engine yet")
