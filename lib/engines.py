"""Engines other than the Tracked-history interpreter (C13-C19)."""
import json
import os
import subprocess
import sys
import time

import cbcheck as cc


def setup():
    ok = True
    for v in ["release", "checked", "eio", "eio-async", "eio-both"]:
        r, info = cc.build(v, fatal=False)
        cc.log(f"build {v}: {'ok ' + info if r else 'FAILED'}")
        if not r:
            cc.log(info)
            ok = False
    sys.exit(0 if ok else 1)


def run_reports(prop, tier, seed, runs, replay_sub, assumptions, rule, scope):
    """runs: list of (label, variant, argv-after-binary).  Each run writes a report with
    'enumerative'/'proptest'/'failure' members like the interpreter engine."""
    t0 = time.time()
    os.makedirs(cc.OUT, exist_ok=True)
    # regression cases first
    nreg = 0
    reg_dir = os.path.join(cc.ROOT, "regressions")
    for name in sorted(os.listdir(reg_dir)) if os.path.isdir(reg_dir) else []:
        path = os.path.join(reg_dir, name)
        try:
            meta = json.load(open(path))
        except Exception:
            continue
        if meta.get("property") != prop or "case" not in meta:
            continue
        for label, variant, _ in runs:
            cc.build(variant)
            p = subprocess.run([cc.binary(variant), replay_sub, path], stdout=subprocess.PIPE, stderr=subprocess.STDOUT, text=True, timeout=120)
            if p.returncode == 5:
                continue
            nreg += 1
            if p.returncode != 0:
                cc.log(p.stdout.strip()[-1500:])
                cc.log(f"VIOLATION property={prop} replay={path}")
                cc.write_min_evidence(prop, tier, seed, time.time() - t0, 1, f"regression {name} fails on {label}")
                sys.exit(1)
    reports = {}
    violation = None
    for label, variant, argv in runs:
        cc.build(variant)
        out = os.path.join(cc.OUT, f"{prop}.{label}.json")
        if os.path.exists(out):
            os.remove(out)
        cmd = [cc.binary(variant)] + argv + ["--tier", tier, "--seed", str(seed), "--out", out]
        try:
            p = subprocess.run(cmd, stdout=subprocess.PIPE, stderr=subprocess.STDOUT, text=True, timeout=7200)
        except subprocess.TimeoutExpired:
            cc.write_min_evidence(prop, tier, seed, time.time() - t0, 0, f"timeout on {label}")
            cc.inconclusive(f"property={prop} run {label} exceeded the time limit")
        if p.returncode != 0 or not os.path.exists(out):
            cc.log(p.stdout[-2000:])
            cc.write_min_evidence(prop, tier, seed, time.time() - t0, 0, f"engine exit {p.returncode} on {label}")
            cc.inconclusive(f"property={prop} run {label}: engine exit {p.returncode}")
        rep = json.load(open(out))
        rep["rule"] = rule
        reports[label] = rep
        if rep.get("failure"):
            f = rep["failure"]
            path = cc.save_replay(prop, {"property": prop, "build": variant, "label": label, "case": f["case"],
                                         "message": f["message"], "rendered": f["rendered"], "generator": f["generator"], "seed": seed})
            cc.log(f"failing case ({f['generator']}, {label}): {f['rendered']}")
            cc.log(f"  {f['message']}")
            violation = path
            break
    wall = time.time() - t0
    cov = cc.merge_reports(prop, reports)
    cov["rule"] = rule
    cov["exhaustive_scope"] = scope
    cov["regression_cases_replayed"] = nreg
    cc.write_evidence(prop, tier, seed, cov, wall, 1 if violation else 0, assumptions)
    if violation:
        cc.log(f"VIOLATION property={prop} replay={violation}")
        sys.exit(1)
    cc.log(f"OK property={prop} tier={tier} evaluations={cov['evaluations']} distinct_nontrivial={cov['distinct_nontrivial']} wall={wall:.1f}s")
    sys.exit(0)


IO_RULE = ("byte-stream cases: exhaustive single steps and (small capacities) all pairs of steps from every layout of capacities 0..=8 "
           "under three fillings of the unoccupied bytes, plus seeded proptest histories up to capacity 256; non-trivial: the transfer "
           "was partial/clamped (destination shorter than the contents, write longer than the free space, consume beyond the length), "
           "the contents or the free space crossed the physical wrap point, or N = 0; distinct by case hash")


def run(prop, tier, seed):
    if prop == "C14":
        runs = [("checked", "checked", ["io", "C14", "--apis", "std"]), ("release", "release", ["io", "C14", "--apis", "std"])]
        return run_reports(prop, tier, seed, runs, "replay-io",
                           ["the byte-queue model (written from the std::io trait documentation and the property statement) is the specification"],
                           IO_RULE, "all layouts of capacities 0..=8 x every single I/O step with every size class (and all pairs of steps for N<=4, N<=6 thorough)")
    if prop == "C16":
        runs = [("embedded-io", "eio", ["io", "C16", "--apis", "eio"]),
                ("embedded-io-async", "eio-async", ["io", "C16", "--apis", "eio-async"]),
                ("both-features", "eio-both", ["io", "C16", "--apis", "eio,eio-async"])]
        return run_reports(prop, tier, seed, runs, "replay-io",
                           ["std::io behaviour is itself checked against the byte-queue model in the same run (and by C14)",
                            "async methods are polled exactly once with a no-op waker; Pending is a violation"],
                           "differential: " + IO_RULE, "as C14, for each of the three feature configurations")
    if prop == "C13":
        runs = [("checked", "checked", ["cmp"]), ("release", "release", ["cmp"])]
        return run_reports(prop, tier, seed, runs, "replay-cmp",
                           ["expected results are computed from the two logical sequences only (hand-written lexicographic order, cross-checked against the slice order)",
                            "hash equality is asserted under std's DefaultHasher only for equal contents and equal capacity, as the property states"],
                           "pairs of buffers: all capacity pairs (N, M) in 0..=5, all layouts of both sides, all contents over {0,1} ({0,1,NaN} for partial orders), "
                           "compared as buffer/slice/array/reference partners; Debug under 32 format strings; proptest for capacities up to 33 and a 4-letter alphabet. "
                           "non-trivial: both sides non-empty and at least one side physically wrapped; distinct by case hash",
                           "all capacity pairs <= 5 x all layouts of both sides x all contents over the alphabet")
    if prop == "C19":
        runs = [("checked", "checked", ["zst"]), ("release", "release", ["zst"])]
        return run_reports(prop, tier, seed, runs, "replay-zst",
                           ["counter model: for a zero-sized element type only lengths, Some/None/Err shapes and the number of constructor/destructor runs are observable",
                            "the assertion-checked build turns arithmetic overflow, division by zero and debug assertions into panics"],
                           "zero-sized drop-counting elements at 13 capacities (usize::MAX, usize::MAX-1, 2^63+1, 2^63, 2^63-1, 2^32+1, 2^32, 2^32-1, 65537, 3, 2, 1, 0); "
                           "front position near N (push_front from empty) and near 0, moved across the wrap by pops; every operation whose cost does not grow with N "
                           "with boundary arguments (0, 1, len-1, len, len+1, N-1, N, usize::MAX) and every bound pair; proptest histories. "
                           "non-trivial: N >= 2^32 (front position within 12 of 0 or of N by construction); distinct by case hash",
                           "13 capacities x 66 constructed layouts x every listed operation/argument class, each followed by a fixed 4-step tail")
    cc.inconclusive(f"property {prop} has no engine yet")


def replay(prop, path):
    meta = json.load(open(path))
    if prop in ("C14", "C16"):
        variants = [meta["build"]] if meta.get("build") in cc.VARIANTS else (["checked", "release"] if prop == "C14" else ["eio-both"])
        bad = False
        for v in variants:
            cc.build(v)
            p = subprocess.run([cc.binary(v), "replay-io", path], stdout=subprocess.PIPE, stderr=subprocess.STDOUT, text=True, timeout=120)
            cc.log(f"--- build {v}")
            cc.log(p.stdout.strip())
            bad |= p.returncode not in (0, 5)
        if bad:
            cc.log(f"VIOLATION property={prop} replay={path}")
            sys.exit(1)
        sys.exit(0)
    if prop in ("C13", "C19"):
        bad = False
        for v in ["checked", "release"]:
            cc.build(v)
            p = subprocess.run([cc.binary(v), "replay-cmp" if prop == "C13" else "replay-zst", path], stdout=subprocess.PIPE, stderr=subprocess.STDOUT, text=True, timeout=120)
            cc.log(f"--- build {v}")
            cc.log(p.stdout.strip())
            bad |= p.returncode != 0
        if bad:
            cc.log(f"VIOLATION property={prop} replay={path}")
            sys.exit(1)
        sys.exit(0)
    cc.inconclusive(f"property {prop} has no engine yet")
