"""Engines other than the Tracked-history interpreter (C13-C19)."""
import json
import os
import subprocess
import sys
import time

import cbcheck as cc


def setup():
    # the variants have separate target directories, so four builds can run side by side
    from concurrent.futures import ThreadPoolExecutor
    names = ["release", "checked", "wide", "eio", "eio-async", "eio-both", "eio-both-nostd", "eio-nostd", "eio-async-nostd", "nostd", "alloc", "opt0", "unstable"]
    with ThreadPoolExecutor(max_workers=4) as ex:
        results = list(ex.map(lambda v: (v,) + tuple(cc.build(v, fatal=False)), names))
    ok = True
    for v, r, info in results:
        cc.log(f"build {v}: {'ok ' + info if r else 'FAILED'}")
        if not r:
            cc.log(info)
            ok = False
    sys.exit(0 if ok else 1)


def run_reports(prop, tier, seed, runs, replay_sub, assumptions, rule, scope, extra_cov=None):
    """runs: list of (label, variant, argv-after-binary).  Each run writes a report with
    'enumerative'/'proptest'/'failure' members like the interpreter engine."""
    t0 = time.time()
    os.makedirs(cc.OUT, exist_ok=True)
    # regression cases first
    nreg = 0
    reg_dir = os.path.join(cc.ROOT, "regressions")
    for name in sorted(os.listdir(reg_dir)) if os.path.isdir(reg_dir) else []:
        path = os.path.join(reg_dir, name)
        try:
            meta = json.load(open(path))
        except Exception:
            continue
        if meta.get("property") != prop or "case" not in meta:
            continue
        for label, variant, _ in runs:
            cc.build(variant)
            p = subprocess.run([cc.binary(variant), replay_sub, path], stdout=subprocess.PIPE, stderr=subprocess.STDOUT, text=True, timeout=120)
            if p.returncode == 5:
                continue
            nreg += 1
            if p.returncode != 0:
                cc.log(p.stdout.strip()[-1500:])
                cc.log(f"VIOLATION property={prop} replay={path}")
                cc.write_min_evidence(prop, tier, seed, time.time() - t0, 1, f"regression {name} fails on {label}")
                sys.exit(1)
    reports = {}
    violation = None
    for label, variant, argv in runs:
        cc.build(variant)
        out = os.path.join(cc.OUT, f"{prop}.{label}.json")
        if os.path.exists(out):
            os.remove(out)
        cmd = [cc.binary(variant)] + argv + ["--tier", tier, "--seed", str(seed), "--out", out]
        try:
            p = subprocess.run(cmd, stdout=subprocess.PIPE, stderr=subprocess.STDOUT, text=True, timeout=7200)
        except subprocess.TimeoutExpired:
            cc.write_min_evidence(prop, tier, seed, time.time() - t0, 0, f"timeout on {label}")
            cc.inconclusive(f"property={prop} run {label} exceeded the time limit")
        if p.returncode == 71:
            cc.log(p.stdout[-1000:])
            cc.write_min_evidence(prop, tier, seed, time.time() - t0, 0, f"watchdog: a case did not complete within 60 s on {label}")
            cc.inconclusive(f"property={prop} run {label}: a generated case did not terminate within 60 s (normal cases take microseconds)")
        if p.returncode != 0 or not os.path.exists(out):
            cc.log(p.stdout[-2000:])
            cc.write_min_evidence(prop, tier, seed, time.time() - t0, 0, f"engine exit {p.returncode} on {label}")
            cc.inconclusive(f"property={prop} run {label}: engine exit {p.returncode}")
        rep = json.load(open(out))
        rep["rule"] = rule
        reports[label] = rep
        if rep.get("failure"):
            f = rep["failure"]
            path = cc.save_replay(prop, {"property": prop, "build": variant, "label": label, "case": f["case"],
                                         "message": f["message"], "rendered": f["rendered"], "generator": f["generator"], "seed": seed})
            cc.log(f"failing case ({f['generator']}, {label}): {f['rendered']}")
            cc.log(f"  {f['message']}")
            violation = path
            break
    deep_cov = {}
    if tier == "thorough" and not violation:
        deep_cov, dv = cc.deep_tier(prop, seed)
        if dv:
            violation = dv[0]
    wall = time.time() - t0
    cov = cc.merge_reports(prop, reports)
    cov.update(deep_cov)
    cov["evaluations"] += deep_cov.get("fuzz_executions", 0) + deep_cov.get("miri_cases", 0)
    cov["rule"] = rule
    cov["exhaustive_scope"] = scope
    cov["regression_cases_replayed"] = nreg
    if extra_cov:
        cov["evaluations"] += extra_cov.pop("_extra_evaluations", 0)
        cov.update(extra_cov)
    cc.write_evidence(prop, tier, seed, cov, wall, 1 if violation else 0, assumptions)
    if violation:
        cc.log(f"VIOLATION property={prop} replay={violation}")
        sys.exit(1)
    cc.log(f"OK property={prop} tier={tier} evaluations={cov['evaluations']} distinct_nontrivial={cov['distinct_nontrivial']} wall={wall:.1f}s")
    sys.exit(0)


IO_RULE = ("byte-stream cases: exhaustive single steps and (small capacities) all pairs of steps from every layout of capacities 0..=8 "
           "under three fillings of the unoccupied bytes, plus seeded proptest histories up to capacity 256; non-trivial: the transfer "
           "was partial/clamped (destination shorter than the contents, write longer than the free space, consume beyond the length), "
           "the contents or the free space crossed the physical wrap point, or N = 0; distinct by case hash")


def run(prop, tier, seed):
    if prop == "C14":
        # "for any capacity": the byte-stream operations on a 4 MiB boxed buffer, unoptimised build, 2 MiB stacks
        t0 = time.time()
        bcov, viol = cc.big_run(prop, tier, seed, t0, ops_prefix="Io")
        if viol:
            cc.write_min_evidence(prop, tier, seed, time.time() - t0, 1, viol[1])
            cc.log(f"VIOLATION property={prop} replay={viol[0]}")
            sys.exit(1)
        runs = [("checked", "checked", ["io", "C14", "--apis", "std"]), ("release", "release", ["io", "C14", "--apis", "std"])]
        return run_reports(prop, tier, seed, runs, "replay-io",
                           ["the byte-queue model (written from the std::io trait documentation and the property statement) is the specification"],
                           IO_RULE, "all layouts of capacities 0..=8 x every single I/O step with every size class (and all pairs of steps for N<=4, N<=6 thorough)",
                           extra_cov=dict(bcov, _extra_evaluations=bcov.get("large_boxed_buffer_cases", 0)))
    if prop == "C16":
        runs = [("embedded-io", "eio", ["io", "C16", "--apis", "eio"]),
                ("embedded-io-async", "eio-async", ["io", "C16", "--apis", "eio-async"]),
                ("both-features", "eio-both", ["io", "C16", "--apis", "eio,eio-async"])]
        extra = c16_nostd_traces(prop, tier, seed)
        return run_reports(prop, tier, seed, runs, "replay-io",
                           ["std::io behaviour is itself checked against the byte-queue model in the same run (and by C14)",
                            "async methods are polled exactly once with a no-op waker; Pending is a violation",
                            "builds of the crate without its std feature have no std::io impls in the same process: there the embedded-io traces "
                            "(counts, bytes, fill_buf chunks, contents and layout after every call) are compared with the traces of the same "
                            "histories in the std build, which this check ties to std::io call by call"],
                           "differential: " + IO_RULE, "as C14, for each of the three feature configurations", extra_cov=extra)
    if prop == "C13":
        runs = [("checked", "checked", ["cmp"]), ("release", "release", ["cmp"])]
        return run_reports(prop, tier, seed, runs, "replay-cmp",
                           ["expected results are computed from the two logical sequences only (hand-written lexicographic order, cross-checked against the slice order)",
                            "hash equality is asserted under std's DefaultHasher only for equal contents and equal capacity, as the property states"],
                           "pairs of buffers: all capacity pairs (N, M) in 0..=5, all layouts of both sides, all contents over {0,1} ({0,1,NaN} for partial orders), "
                           "compared as buffer/slice/array/reference partners; Debug under 32 format strings; proptest for capacities up to 33 and a 4-letter alphabet. "
                           "non-trivial: both sides non-empty and at least one side physically wrapped; distinct by case hash",
                           "all capacity pairs <= 5 x all layouts of both sides x all contents over the alphabet")
    if prop == "C19":
        t0 = time.time()
        extra, viol = cc.simple_sub_run(prop, tier, seed, t0, "zfull")
        if viol:
            cc.write_min_evidence(prop, tier, seed, time.time() - t0, 1, viol[1])
            cc.log(f"VIOLATION property={prop} replay={viol[0]}")
            sys.exit(1)
        extra["_extra_evaluations"] = sum(v for v in extra.values() if isinstance(v, int))
        extra["full_buffer_space"] = ("buffers of a destructor-free zero-sized type built full from an array in O(1) at capacities usize::MAX, usize::MAX-1, 2^63+1, 2^63, "
                                      "2^32+1, 2^32-1, 65537; 0..=2 elements short of full; front moved by up to 2 in either direction; every operation whose cost does "
                                      "not grow with the length, alone and (for the two largest capacities) in all pairs")
        runs = [("checked", "checked", ["zst"]), ("release", "release", ["zst"])]
        return run_reports(prop, tier, seed, runs, "replay-zst",
                           ["counter model: for a zero-sized element type only lengths, Some/None/Err shapes and the number of constructor/destructor runs are observable",
                            "the assertion-checked build turns arithmetic overflow, division by zero and debug assertions into panics",
                            "capacity-independence sub-check: where as_slices() splits the contents is assumed to depend on the history and the distance of the front from the array end only, not on the capacity (reference run at capacity 65537)"],
                           "zero-sized drop-counting elements at 13 capacities (usize::MAX, usize::MAX-1, 2^63+1, 2^63, 2^63-1, 2^32+1, 2^32, 2^32-1, 65537, 3, 2, 1, 0); "
                           "front position near N (push_front from empty) and near 0, moved across the wrap by pops; every operation whose cost does not grow with N "
                           "with boundary arguments (0, 1, len-1, len, len+1, N-1, N, usize::MAX) and every bound pair; proptest histories. "
                           "non-trivial: N >= 2^32 (front position within 12 of 0 or of N by construction); distinct by case hash",
                           "13 capacities x 66 constructed layouts x every listed operation/argument class, each followed by a fixed 4-step tail", extra_cov=extra)
    if prop == "C17":
        extra = core_only_builds(prop, tier, seed)
        extra.update(freestanding_run(prop, tier, seed))
        runs = [("crate-features-std", "release", ["alloc"]), ("crate-features-none", "nostd", ["alloc"]), ("crate-features-alloc", "alloc", ["alloc"])]
        return run_reports(prop, tier, seed, runs, "replay-alloc",
                           ["the counting #[global_allocator] of the harness sees every heap allocation and reallocation of the process; counts are per thread",
                            "harness bookkeeping (argument construction, result destruction) happens outside the measured window",
                            "panicking calls are excluded (the panic machinery allocates); boxed() and to_vec() are excluded as the property states"],
                           "histories over a non-allocating element type with Clone/Drop side effects; every crate call (including creation, each step and the drop of "
                           "iterators and drains) is measured separately and must perform 0 allocations and 0 reallocations; exhaustive single steps from every layout of "
                           "capacities 0..=6 plus proptest histories up to capacity 1000; run against the crate built with features {std}, {} and {alloc}. "
                           "non-trivial: the measured call moved, created or destroyed at least one element; distinct by case hash",
                           "all layouts of capacities 0..=6 x every operation with every in-range argument", extra_cov=extra)
    if prop == "C18":
        return run_c18(tier, seed)
    if prop == "C15":
        import c15
        return c15.run(tier, seed)
    cc.inconclusive(f"property {prop} has no engine yet")


def copyclone_diff():
    """(first differing pair of lines or None, number of lines) of the `copyclone` listing in the stable and the unstable build."""
    outs = {}
    for v in ("release", "unstable"):
        p = subprocess.run([cc.binary(v), "copyclone"], stdout=subprocess.PIPE, stderr=subprocess.STDOUT, text=True, timeout=600)
        if p.returncode != 0:
            cc.log(p.stdout[-1500:])
            cc.inconclusive(f"property=C18: copyclone listing exited {p.returncode} in build {v}")
        outs[v] = p.stdout.splitlines()
    a, b = outs["release"], outs["unstable"]
    for x, y in zip(a, b):
        if x != y:
            return (x, y), len(a)
    if len(a) != len(b):
        return ("(%d lines)" % len(a), "(%d lines)" % len(b)), len(a)
    return None, len(a)


def run_c18(tier, seed):
    """Differential: stable default build vs nightly + `unstable` feature, same generated cases, per-unit trace
    digests compared position by position; the unstable build also runs every oracle itself."""
    prop = "C18"
    t0 = time.time()
    cc.build("release")
    ok, info = cc.build("unstable", fatal=False)
    if not ok:
        cc.log(info)
        cc.write_min_evidence(prop, tier, seed, time.time() - t0, 0, "nightly + unstable build failed")
        cc.inconclusive("property=C18: the harness does not build with `cargo +nightly --features unstable` (toolchain or crate no longer compiles the feature)")
    os.makedirs(cc.OUT, exist_ok=True)
    cov = {"evaluations": 0, "distinct_nontrivial": 0, "samples": [], "per_property": {}, "exhaustive": True,
           "rule": "the complete case spaces of C01-C12 and C20 (enumerative parts in full, proptest parts with the same seeds) are executed in the stable default "
                   "build and in the nightly build with the `unstable` feature; per layout unit a 64-bit digest of the full observable trace (results, contents after "
                   "each step, panic flags, element lifecycle events, injected-fault outcomes) must be equal in both builds; the unstable build also runs every oracle "
                   "of those properties itself, and additionally the C13/C14/C19 engines. non-trivial: as defined by the underlying property (nearly every case executes "
                   "a cfg(feature = \"unstable\") region: new, From<[T;M]>, extend_from_slice, slice views, iterator stepping, drain views); distinct by case hash"}
    violation = None
    for sub in cc.ENGINE_A:
        reps = {}
        for v in ("release", "unstable"):
            out = os.path.join(cc.OUT, f"C18.{sub}.{v}.json")
            if os.path.exists(out):
                os.remove(out)
            p = subprocess.run([cc.binary(v), "run", sub, "--tier", tier, "--seed", str(seed), "--out", out, "--unit-digests",
                                "--crash-file", out + ".crash"], stdout=subprocess.PIPE, stderr=subprocess.STDOUT, text=True)
            if p.returncode != 0 or not os.path.exists(out):
                if v == "unstable" and p.returncode in (70, 71, -6, -11):
                    verdict, path = cc.triage_crash(sub, v, out + ".crash", "hang" if p.returncode == 71 else "crash")
                    if verdict == "violation":
                        violation = (path, f"the unstable build crashes where the stable build does not ({sub})")
                        break
                cc.log(p.stdout[-1500:])
                cc.write_min_evidence(prop, tier, seed, time.time() - t0, 0, f"engine exit {p.returncode} on {v}/{sub}")
                cc.inconclusive(f"property=C18 sub={sub} build={v}: engine exit {p.returncode}")
            reps[v] = json.load(open(out))
        if violation:
            break
        st, un = reps["release"], reps["unstable"]
        if un.get("failure"):
            f = un["failure"]
            path = cc.save_replay(prop, {"property": prop, "sub_property": sub, "build": "unstable", "case": f["case"], "message": f["message"], "rendered": f["rendered"]})
            cc.log(f"with the unstable feature a {sub} oracle fails: {f['rendered']}\n  {f['message']}")
            violation = (path, f["message"])
            break
        if st.get("failure"):
            # the stable build fails an oracle: if the unstable build passes the very same case, the two
            # configurations behave differently, which is what this property forbids
            f = st["failure"]
            tmp = os.path.join(cc.OUT, "C18.stable-failure.json")
            json.dump({"case": f["case"]}, open(tmp, "w"))
            ru, outu = cc.replay_once("unstable", sub, tmp)
            if ru == "ok":
                path = cc.save_replay(prop, {"property": prop, "sub_property": sub, "case": f["case"], "rendered": f["rendered"],
                                             "message": "the default stable build fails this case (" + f["message"] + ") while the nightly `unstable` build passes it: the two configurations behave differently"})
                cc.log(f"stable and unstable differ on {sub}: {f['rendered']}\n  stable: {f['message']}\n  unstable: passes")
                violation = (path, "stable fails, unstable passes")
                break
            cc.write_min_evidence(prop, tier, seed, time.time() - t0, 0, f"both builds fail {sub} on the same case")
            cc.inconclusive(f"property=C18: both builds fail {sub} in the same way; fix that first (see ./check {sub})")
        ds, du = st["enumerative"]["unit_digests"], un["enumerative"]["unit_digests"]
        diff = [i for i in range(min(len(ds), len(du))) if ds[i] != du[i]]
        pd = st.get("proptest", {}).get("digest") != un.get("proptest", {}).get("digest")
        if diff or len(ds) != len(du):
            unit = diff[0] if diff else min(len(ds), len(du))
            lines = {}
            for v in ("release", "unstable"):
                p = subprocess.run([cc.binary(v), "unit", sub, str(unit), "--tier", tier], stdout=subprocess.PIPE, stderr=subprocess.STDOUT, text=True)
                lines[v] = p.stdout.splitlines()
            case, pair = None, None
            for a, b in zip(lines["release"], lines["unstable"]):
                if a != b:
                    case = json.loads(a.split(" ", 1)[1]) if not a.startswith("FAIL") else json.loads(a.split(" ", 2)[1])
                    pair = (a.split(" ", 1)[0], b.split(" ", 1)[0])
                    break
            path = cc.save_replay(prop, {"property": prop, "sub_property": sub, "case": case, "stable_digest": pair[0] if pair else None,
                                         "unstable_digest": pair[1] if pair else None,
                                         "message": "the observable trace of this case differs between the stable default build and the nightly `unstable` build"})
            cc.log(f"trace differs between stable and unstable for {sub} unit {unit}: {json.dumps(case)[:400]}")
            violation = (path, "trace digest differs")
            break
        if pd:
            path = cc.save_replay(prop, {"property": prop, "sub_property": sub, "case": None, "seed": seed,
                                         "message": f"the combined trace digest of the proptest histories of {sub} (seed {seed}) differs between the stable and the unstable build; rerun ./check {sub} on both builds to localise"})
            violation = (path, "proptest digest differs")
            break
        ev = un["enumerative"]["evaluations"] + un.get("proptest", {}).get("evaluations", 0)
        dn = un["enumerative"]["distinct_nontrivial"] + un.get("proptest", {}).get("distinct_nontrivial", 0)
        cov["evaluations"] += 2 * ev
        cov["distinct_nontrivial"] += dn
        cov["per_property"][sub] = {"cases_per_build": ev, "distinct_nontrivial": dn, "layout_units_compared": len(ds),
                                    "enumerative_digest": un["enumerative"]["digest"], "proptest_digest": un.get("proptest", {}).get("digest")}
        if len(cov["samples"]) < 12:
            cov["samples"] += un["enumerative"]["samples"][:1]
    if not violation:
        # engines without trace digests: the unstable build must pass their oracles itself
        for label, argv in (("C13", ["cmp"]), ("C14", ["io", "C14", "--apis", "std"]), ("C19", ["zst"])):
            out = os.path.join(cc.OUT, f"C18.{label}.unstable.json")
            p = subprocess.run([cc.binary("unstable")] + argv + ["--tier", tier, "--seed", str(seed), "--out", out], stdout=subprocess.PIPE, stderr=subprocess.STDOUT, text=True)
            if p.returncode != 0:
                cc.log(p.stdout[-1500:])
                cc.inconclusive(f"property=C18: engine {label} exited {p.returncode} in the unstable build")
            rep = json.load(open(out))
            if rep.get("failure"):
                f = rep["failure"]
                path = cc.save_replay(prop, {"property": prop, "sub_property": label, "build": "unstable", "case": f["case"], "message": f["message"], "rendered": f["rendered"]})
                cc.log(f"with the unstable feature a {label} oracle fails: {f['rendered']}\n  {f['message']}")
                violation = (path, f["message"])
                break
            ev = rep["enumerative"]["evaluations"] + rep["proptest"]["evaluations"]
            cov["evaluations"] += ev
            cov["per_property"][label] = {"cases_unstable_build_only": ev}
    if not violation:
        diff, n = copyclone_diff()
        cov["evaluations"] += 2 * n
        cov["per_property"]["copy_with_observable_clone"] = {"lines_compared": n}
        if diff:
            path = cc.save_replay(prop, {"property": prop, "kind": "copyclone", "stable": diff[0], "unstable": diff[1],
                                         "message": "for an element type that is Copy and has an observable Clone, the number of clone calls or the resulting values differ between the stable default build and the nightly `unstable` build"})
            cc.log(f"stable:   {diff[0]}\nunstable: {diff[1]}")
            violation = (path, "clone calls / values differ between builds for a Copy element type")
    wall = time.time() - t0
    cc.write_evidence(prop, tier, seed, cov, wall, 1 if violation else 0,
                      ["case generation is a pure function of the seed, so both builds execute the same cases",
                       "the digest covers results, contents after each step, documented-panic flags and the element lifecycle log; raw hash values and Debug text are compared inside each build, not across toolchains",
                       "if the nightly toolchain can no longer build the feature the check reports INCONCLUSIVE (exit 2), not a violation"])
    if violation:
        cc.log(f"VIOLATION property={prop} replay={violation[0]}")
        sys.exit(1)
    cc.log(f"OK property={prop} tier={tier} evaluations={cov['evaluations']} distinct_nontrivial={cov['distinct_nontrivial']} wall={wall:.1f}s")
    sys.exit(0)


NOSTD_EIO = [("eio-both-nostd", "embedded-io + embedded-io-async, crate built without std"),
             ("eio-nostd", "embedded-io, crate built without std"),
             ("eio-async-nostd", "embedded-io-async, crate built without std")]


def eio_trace_violation(prop, tier, seed, t0, variant, case, msg):
    path = cc.save_replay(prop, {"property": prop, "kind": "eio-trace", "build": variant, "case": case, "message": msg, "seed": seed,
                                 "generator": "enumerative / proptest (trace comparison across builds)"})
    cc.log(f"failing case ({variant}): {json.dumps(case)}")
    cc.log(f"  {msg}")
    cc.write_min_evidence(prop, tier, seed, time.time() - t0, 1, msg)
    cc.log(f"VIOLATION property={prop} replay={path}")
    sys.exit(1)


def c16_nostd_traces(prop, tier, seed):
    """The embedded-io impls in builds of the crate WITHOUT its std feature: there is no std::io impl in the same
    process to compare with, so the same generated histories run in the std build (where the io engine ties the
    embedded impls to std::io call by call) and in the no-std builds, and the full traces must be identical."""
    t0 = time.time()
    reps = {}
    for v in ["eio-both"] + [v for v, _ in NOSTD_EIO]:
        cc.build(v)
        out = os.path.join(cc.OUT, f"{prop}.trace.{v}.json")
        if os.path.exists(out):
            os.remove(out)
        p = subprocess.run([cc.binary(v), "eio-trace", "--tier", tier, "--seed", str(seed), "--out", out],
                           stdout=subprocess.PIPE, stderr=subprocess.STDOUT, text=True, timeout=7200)
        if p.returncode != 0 or not os.path.exists(out):
            cc.log(p.stdout[-2000:])
            cc.write_min_evidence(prop, tier, seed, time.time() - t0, 0, f"trace engine exit {p.returncode} on {v}")
            cc.inconclusive(f"property={prop} trace run {v}: engine exit {p.returncode}")
        reps[v] = json.load(open(out))
        if reps[v].get("failure"):
            f = reps[v]["failure"]
            eio_trace_violation(prop, tier, seed, t0, v, f["case"], f"[{v}] " + f["message"])
    ref = reps["eio-both"]
    compared = 0
    for v, _ in NOSTD_EIO:
        for g, info in reps[v]["groups"].items():
            compared += 1
            if ref["groups"].get(g) == info:
                continue
            # localise: per-case digests of the group in both builds
            dumps = {}
            for b in ("eio-both", v):
                p = subprocess.run([cc.binary(b), "eio-trace", "--tier", tier, "--seed", str(seed), "--dump", g],
                                   stdout=subprocess.PIPE, stderr=subprocess.STDOUT, text=True, timeout=7200)
                dumps[b] = p.stdout.splitlines()
            for la, lb in zip(dumps["eio-both"], dumps[v]):
                if la != lb:
                    case = json.loads(lb.split(" ", 1)[1]) if not lb.startswith("FAIL") else json.loads(lb.split(" ", 2)[1])
                    eio_trace_violation(prop, tier, seed, t0, v, case,
                                        f"the embedded-io trace of this history in the build without the crate's std feature ({v}) differs from the "
                                        f"trace in the std build, where the embedded impls agree with std::io (group {g})")
            cc.write_min_evidence(prop, tier, seed, time.time() - t0, 0, f"group digests differ but no case does: {g}")
            cc.inconclusive(f"property={prop}: group {g} differs between eio-both and {v} but no single case does")
    return {"nostd_trace_comparison": {"reference_build": "eio-both (crate feature std on)", "builds": dict(NOSTD_EIO), "groups_compared": compared,
                                        "cases_per_build": ref["evaluations"], "distinct_nontrivial_per_build": ref["distinct_nontrivial"],
                                        "samples": ref.get("samples", [])[:4],
                                        "rule": "non-trivial: a read / fill_buf delivered part of the contents only, a write overwrote, or consume exceeded the length"},
            "_extra_evaluations": sum(r["evaluations"] for r in reps.values())}


def freestanding_dir():
    src = os.path.join(cc.ROOT, "freestanding")
    if cc.REPO == "/repo":
        return src
    dst = os.path.join(os.path.dirname(cc.HARNESS), "freestanding")
    subprocess.run(["rsync", "-a", "--delete", src + "/", dst + "/"], check=True)
    t = open(os.path.join(dst, "Cargo.toml")).read().replace('path = "/repo"', f'path = "{cc.REPO}"')
    open(os.path.join(dst, "Cargo.toml"), "w").write(t)
    return dst


def freestanding_run(prop, tier, seed, only_profile=None, steps=None):
    """'The crate works without std or an allocator': a no_std, no_main program without a #[global_allocator] links the crate
    (default features off) and runs a seeded model-based self-check in it.  If anything in the graph pulls in `alloc`, the
    link fails ("no global memory allocator found")."""
    t0 = time.time()
    d = freestanding_dir()
    tdir = os.path.join(cc.TARGET, "freestanding")
    steps = steps or (2_000_000 if tier == "thorough" else 100_000)
    res = {}
    for prof, args in (("debug", []), ("release", ["--release"])):
        if only_profile and prof != only_profile:
            continue
        p = subprocess.run(["cargo", "build", "--offline", "--target-dir", tdir] + args, cwd=d, env=cc.ENV, stdout=subprocess.PIPE, stderr=subprocess.STDOUT, text=True)
        if p.returncode != 0:
            out = p.stdout
            in_crate = ("no global memory allocator found" in out) or ("--> " + cc.REPO + "/src/" in out) or ("--> src/" in out and "circular-buffer" in out) \
                or ("can't find crate for `std`" in out) or ("can't find crate for `alloc`" in out)
            cc.log("\n".join(out.splitlines()[-25:]))
            if in_crate:
                os.makedirs(cc.REPLAYS, exist_ok=True)
                path = os.path.join(cc.REPLAYS, f"{prop}-freestanding-build-{prof}.log")
                open(path, "w").write(f"command: cargo build --offline {' '.join(args)} (cwd {d})\n\n" + out)
                cc.log("a program without std and without a global allocator cannot be built against the crate with default features disabled")
                cc.write_min_evidence(prop, tier, seed, time.time() - t0, 1, "freestanding program does not build / link")
                cc.log(f"VIOLATION property={prop} replay={path}")
                sys.exit(1)
            cc.write_min_evidence(prop, tier, seed, time.time() - t0, 0, "could not build the freestanding fixture")
            cc.inconclusive(f"property={prop}: the freestanding fixture failed to build for reasons outside the crate")
        exe = os.path.join(tdir, prof, "cbverif-freestanding")
        try:
            r = subprocess.run([exe, str(seed), str(steps)], stdout=subprocess.PIPE, stderr=subprocess.STDOUT, text=True, timeout=1800)
        except subprocess.TimeoutExpired:
            cc.write_min_evidence(prop, tier, seed, time.time() - t0, 0, "freestanding self-check timed out")
            cc.inconclusive(f"property={prop}: the freestanding self-check did not finish in time")
        if r.returncode != 0 or "OK steps=" not in r.stdout:
            msg = (r.stdout.strip().splitlines() or [f"exit {r.returncode}"])[-1]
            path = cc.save_replay(prop, {"property": prop, "engine": "freestanding", "profile": prof, "seed": seed, "steps": steps,
                                         "message": "no_std / no-allocator self-check against an array model: " + msg,
                                         "case": {"engine": "freestanding", "profile": prof, "seed": seed, "steps": steps}})
            cc.log(f"freestanding self-check ({prof}): {msg}")
            cc.write_min_evidence(prop, tier, seed, time.time() - t0, 1, msg)
            cc.log(f"VIOLATION property={prop} replay={path}")
            sys.exit(1)
        res[prof] = steps * 8
    return {"freestanding_no_allocator_program": {"links_and_runs": True, "model_checked_steps": res,
                                                   "what": "no_std + no_main + no #[global_allocator]; crate default features off; seeded random operations over capacities 0,1,2,3,5,8,16,33 "
                                                           "compared with a shifting-array model after every step"},
            "_extra_evaluations": sum(res.values())}


def core_only_builds(prop, tier, seed):
    """The sentence 'builds without std / with alloc only': the library is built against a sysroot that has
    only `core` (resp. `core` + `alloc`), where a stray std/alloc dependency cannot resolve."""
    t0 = time.time()
    res = {}
    for label, args in (("no-default-features, sysroot = core only", ["--no-default-features", "-Zbuild-std=core"]),
                        ("features = alloc, sysroot = core + alloc", ["--no-default-features", "--features", "alloc", "-Zbuild-std=core,alloc"]),
                        # optimised builds too: code under cfg(not(debug_assertions)) exists only there
                        ("no-default-features, sysroot = core only, release profile", ["--release", "--no-default-features", "-Zbuild-std=core"]),
                        ("features = alloc, sysroot = core + alloc, release profile", ["--release", "--no-default-features", "--features", "alloc", "-Zbuild-std=core,alloc"])):
        cmd = ["cargo", "+nightly", "build", "--lib", "--offline", "--target", "x86_64-unknown-linux-gnu",
               "--target-dir", os.path.join(cc.TARGET, "core-only")] + args
        p = subprocess.run(cmd, cwd=cc.REPO, env=cc.ENV, stdout=subprocess.PIPE, stderr=subprocess.STDOUT, text=True)
        if p.returncode == 0:
            res[label] = "builds"
            continue
        out = p.stdout
        in_crate = ("--> src/" in out) or ("can't find crate for `std`" in out) or ("can't find crate for `alloc`" in out) \
            or ("(which `alloc` depends on)" in out) or ("(which `std` depends on)" in out)
        if in_crate:
            os.makedirs(cc.REPLAYS, exist_ok=True)
            path = os.path.join(cc.REPLAYS, "C17-build-" + ("core" if "core only" in label else "alloc") + ("-release" if "release" in label else "") + ".log")
            open(path, "w").write("command: " + " ".join(cmd) + "\n(cwd /repo)\n\n" + out)
            cc.log("\n".join(out.splitlines()[-30:]))
            cc.log(f"the crate does not build with {label}")
            cc.write_min_evidence(prop, tier, seed, time.time() - t0, 1, f"crate does not build: {label}")
            cc.log(f"VIOLATION property={prop} replay={path}")
            sys.exit(1)
        cc.log("\n".join(out.splitlines()[-30:]))
        cc.write_min_evidence(prop, tier, seed, time.time() - t0, 0, f"could not run the core-only build: {label}")
        cc.inconclusive(f"property={prop}: the build-std toolchain step failed for reasons outside the crate ({label})")
    # the optional embedded-io features must not pull std back in either: every combination of them without std
    # (with and without alloc), dev and release profile, against the ordinary sysroot
    combos = ["embedded-io", "embedded-io-async", "embedded-io,embedded-io-async", "alloc,embedded-io,embedded-io-async"]
    for feats in combos:
        for prof in ([], ["--release"]):
            label = f"no-default-features + {feats}" + (", release profile" if prof else "")
            cmd = ["cargo", "build", "--lib", "--offline", "--no-default-features", "--features", feats, "--target-dir", os.path.join(cc.TARGET, "feature-matrix")] + prof
            p = subprocess.run(cmd, cwd=cc.REPO, env=cc.ENV, stdout=subprocess.PIPE, stderr=subprocess.STDOUT, text=True)
            if p.returncode == 0:
                res[label] = "builds"
                continue
            out = p.stdout
            if "--> src/" in out or "could not compile `circular-buffer`" in out:
                os.makedirs(cc.REPLAYS, exist_ok=True)
                path = os.path.join(cc.REPLAYS, "C17-build-features-" + feats.replace(",", "+") + ("-release" if prof else "") + ".log")
                open(path, "w").write("command: " + " ".join(cmd) + "\n(cwd /repo)\n\n" + out)
                cc.log("\n".join(out.splitlines()[-30:]))
                cc.log(f"the crate does not build with {label}")
                cc.write_min_evidence(prop, tier, seed, time.time() - t0, 1, f"crate does not build: {label}")
                cc.log(f"VIOLATION property={prop} replay={path}")
                sys.exit(1)
            cc.log("\n".join(out.splitlines()[-30:]))
            cc.write_min_evidence(prop, tier, seed, time.time() - t0, 0, f"could not run the feature-matrix build: {label}")
            cc.inconclusive(f"property={prop}: a feature-matrix build failed for reasons outside the crate ({label})")
    return {"configuration_builds": res}


def _replay_big(prop, path, meta):
    cc.build("opt0")
    tmp = os.path.join(cc.OUT, "big-replay-case.json")
    os.makedirs(cc.OUT, exist_ok=True)
    json.dump(meta["case"], open(tmp, "w"))
    p = subprocess.run([cc.binary("opt0"), "big", "--case", tmp], stdout=subprocess.PIPE, stderr=subprocess.STDOUT, text=True, timeout=600)
    cc.log(p.stdout.strip()[-1500:])
    done = [l for l in p.stdout.splitlines() if l.startswith("DONE ")]
    if not done or json.loads(done[-1][5:]).get("failure"):
        cc.log(f"VIOLATION property={prop} replay={path}")
        sys.exit(1)
    sys.exit(0)


def replay(prop, path):
    meta = json.load(open(path))
    if prop == "C16" and meta.get("kind") == "eio-trace":
        outs = {}
        bad = False
        for v in ["eio-both"] + [v for v, _ in NOSTD_EIO]:
            cc.build(v)
            p = subprocess.run([cc.binary(v), "replay-eio-trace", path], stdout=subprocess.PIPE, stderr=subprocess.STDOUT, text=True, timeout=120)
            cc.log(f"--- build {v} (exit {p.returncode})")
            cc.log(p.stdout.strip())
            api_missing = "api not compiled in" in p.stdout
            if api_missing:
                continue
            bad |= p.returncode != 0
            outs[v] = [l for l in p.stdout.splitlines() if l.startswith("TRACE") or l.startswith("DIGEST")]
        if bad or any(o != outs["eio-both"] for o in outs.values()):
            cc.log(f"VIOLATION property={prop} replay={path}")
            sys.exit(1)
        sys.exit(0)
    if prop == "C14" and meta.get("engine") == "big":
        _replay_big(prop, path, meta)
    if prop in ("C14", "C16"):
        variants = [meta["build"]] if meta.get("build") in cc.VARIANTS else (["checked", "release"] if prop == "C14" else ["eio-both"])
        bad = False
        for v in variants:
            cc.build(v)
            p = subprocess.run([cc.binary(v), "replay-io", path], stdout=subprocess.PIPE, stderr=subprocess.STDOUT, text=True, timeout=120)
            cc.log(f"--- build {v}")
            cc.log(p.stdout.strip())
            bad |= p.returncode not in (0, 5)
        if bad:
            cc.log(f"VIOLATION property={prop} replay={path}")
            sys.exit(1)
        sys.exit(0)
    if prop == "C15":
        import c15
        return c15.replay(path)
    if prop == "C18" and meta.get("kind") == "copyclone":
        cc.build("release")
        cc.build("unstable")
        diff, n = copyclone_diff()
        if diff:
            cc.log(f"stable:   {diff[0]}\nunstable: {diff[1]}")
            cc.log(f"VIOLATION property={prop} replay={path}")
            sys.exit(1)
        cc.log(f"ok: {n} lines identical in both builds")
        sys.exit(0)
    if prop == "C18":
        meta = json.load(open(path))
        sub = meta.get("sub_property", "C01")
        if meta.get("case") is None:
            cc.log(meta.get("message", ""))
            cc.inconclusive("this C18 replay file has no single case; rerun ./check C18")
        cc.build("release")
        cc.build("unstable")
        sub_cmd = {"C13": "replay-cmp", "C14": "replay-io", "C19": "replay-zst"}.get(sub)
        outs = {}
        bad = False
        for v in ("release", "unstable"):
            cmd = [cc.binary(v), sub_cmd, path] if sub_cmd else [cc.binary(v), "replay", sub, path]
            p = subprocess.run(cmd, stdout=subprocess.PIPE, stderr=subprocess.STDOUT, text=True, timeout=120)
            cc.log(f"--- build {v} (exit {p.returncode})")
            cc.log(p.stdout.strip())
            outs[v] = [l for l in p.stdout.splitlines() if l.startswith("trace digest")]
            bad |= p.returncode != 0
        if bad or outs["release"] != outs["unstable"]:
            cc.log(f"VIOLATION property={prop} replay={path}")
            sys.exit(1)
        sys.exit(0)
    if prop == "C17":
        if path.endswith(".log"):
            core_only_builds(prop, "quick", 0)
            freestanding_run(prop, "quick", 0, steps=1000)
            cc.log("the crate builds in all configurations now")
            sys.exit(0)
        if meta.get("engine") == "freestanding":
            freestanding_run(prop, "quick", meta["seed"], only_profile=meta["profile"], steps=meta["steps"])
            cc.log("the freestanding self-check passes")
            sys.exit(0)
        bad = False
        for v in ["release", "nostd", "alloc"]:
            cc.build(v)
            p = subprocess.run([cc.binary(v), "replay-alloc", path], stdout=subprocess.PIPE, stderr=subprocess.STDOUT, text=True, timeout=120)
            cc.log(f"--- build {v}")
            cc.log(p.stdout.strip())
            bad |= p.returncode != 0
        if bad:
            cc.log(f"VIOLATION property={prop} replay={path}")
            sys.exit(1)
        sys.exit(0)
    if prop in ("C13", "C19"):
        bad = False
        for v in ["checked", "release"]:
            cc.build(v)
            sub = "replay-cmp" if prop == "C13" else ("replay-zfull" if meta.get("engine") == "zfull" else "replay-zst")
            p = subprocess.run([cc.binary(v), sub, path], stdout=subprocess.PIPE, stderr=subprocess.STDOUT, text=True, timeout=120)
            cc.log(f"--- build {v}")
            cc.log(p.stdout.strip())
            bad |= p.returncode != 0
        if bad:
            cc.log(f"VIOLATION property={prop} replay={path}")
            sys.exit(1)
        sys.exit(0)
    cc.inconclusive(f"property {prop} has no engine yet")
