//! The same case language run over an element type WITHOUT a destructor (`needs_drop::<T>()` is
//! false), so that code paths specialised on "plain data" elements are covered too.  Identity is
//! the element's value: every `Plain` ever made (by the harness or by `clone`) has a fresh id, so
//! stale copies, duplicates and resurrected elements are recognisable.  Serves C06 and C10 (and
//! re-checks the sequence semantics of C01 for such types).

use crate::case::*;
use crate::deq::{make_buf, Ctor, Deq};
use crate::model::{range_must_panic, range_to_pair};
use crate::tracked::{user_event, FaultKind, Injected};
use std::cell::Cell;
use std::panic::{catch_unwind, AssertUnwindSafe};

thread_local! {
    static NEXT: Cell<u64> = const { Cell::new(1) };
}

const TAG: u64 = 0x51A1_0000_0000_0000;

#[derive(Debug, PartialEq, Eq, PartialOrd, Ord, Hash)]
pub struct Plain(pub u64);

impl Plain {
    pub fn new() -> Self {
        NEXT.with(|n| {
            let v = n.get();
            n.set(v + 1);
            Plain(TAG | v)
        })
    }
    fn id(&self) -> Option<u64> {
        if self.0 & 0xFFFF_0000_0000_0000 == TAG && (self.0 & 0xFFFF_FFFF_FFFF) < NEXT.with(|n| n.get()) && self.0 != TAG {
            Some(self.0 & 0xFFFF_FFFF_FFFF)
        } else {
            None
        }
    }
}
impl Clone for Plain {
    fn clone(&self) -> Self {
        user_event(FaultKind::Clone);
        Plain::new()
    }
}

type R<T> = Result<T, String>;

enum Called<T> {
    Ok(T),
    Injected,
    Panic(String),
}

struct St {
    n: usize,
    buf: Option<Box<dyn Deq<Plain>>>,
    model: Vec<u64>,
    held: Vec<u64>,
    pending: Option<(FaultKind, u32)>,
    fired: bool,
    items_off: usize,
    fill: Fill,
    flags: u64,
}

pub const PF_FAULT_FIRED: u64 = 1;
pub const PF_FORGET_AFTER_YIELD: u64 = 2;
pub const PF_OUTSIDE: u64 = 4;
pub const PF_CHANGED: u64 = 8;

fn items_offset(n: usize) -> usize {
    if n == 0 {
        return 0;
    }
    let mut b = make_buf::<Plain>(n, Ctor::New);
    for _ in 0..n {
        b.push_back(Plain(0));
    }
    let base = b.struct_addr();
    (0..n).map(|i| b.get(i).unwrap() as *const Plain as usize).min().unwrap() - base
}

impl St {
    fn b(&self) -> &dyn Deq<Plain> {
        &**self.buf.as_ref().unwrap()
    }
    fn call<T>(&mut self, f: impl FnOnce(&mut dyn Deq<Plain>) -> T) -> Called<T> {
        match self.pending {
            Some((k, n)) if !self.fired => crate::tracked::arm(k, n),
            _ => crate::tracked::start_count(),
        }
        let buf = &mut **self.buf.as_mut().unwrap();
        let r = catch_unwind(AssertUnwindSafe(move || f(buf)));
        self.fired |= crate::tracked::disarm();
        match r {
            Ok(v) => Called::Ok(v),
            Err(p) => {
                if p.downcast_ref::<Injected>().is_some() {
                    Called::Injected
                } else {
                    Called::Panic(crate::interp::panic_msg(&p))
                }
            }
        }
    }

    fn observe(&self) -> R<Vec<u64>> {
        let b = self.b();
        let len = b.len();
        if len > self.n {
            return Err(format!("len() = {len} exceeds capacity {}", self.n));
        }
        let mut out = Vec::new();
        for (i, e) in b.iter().enumerate() {
            if i >= len {
                return Err("iter() yields more than len() elements".into());
            }
            match e.id() {
                Some(id) => out.push(id),
                None => return Err(format!("position {i} holds bytes that are not an element ({:#x})", e.0)),
            }
        }
        if out.len() != len {
            return Err(format!("iter() yields {} elements, len() = {len}", out.len()));
        }
        let mut s = out.clone();
        s.sort_unstable();
        if s.windows(2).any(|w| w[0] == w[1]) {
            return Err(format!("the buffer contains the same element twice: {:?}", out));
        }
        for (i, id) in out.iter().enumerate() {
            if b.get(i).and_then(|e| e.id()) != Some(*id) {
                return Err(format!("get({i}) disagrees with iter()"));
            }
            if self.held.contains(id) {
                return Err(format!("the buffer contains element #{id}, which was already handed to the caller"));
            }
        }
        let (s1, s2) = b.as_slices();
        if s1.len() + s2.len() != len {
            return Err("as_slices() lengths disagree with len()".into());
        }
        Ok(out)
    }

    fn poison(&mut self) -> R<()> {
        if self.n == 0 || self.fill == Fill::Leave {
            return Ok(());
        }
        let base = self.b().struct_addr() + self.items_off;
        let mut occ = vec![false; self.n];
        for i in 0..self.b().len() {
            let a = self.b().get(i).map(|e| e as *const Plain as usize).ok_or("get() is None inside the length")?;
            let d = a.checked_sub(base).filter(|d| d % 8 == 0 && d / 8 < self.n).ok_or("element outside the storage")?;
            occ[d / 8] = true;
        }
        let pat: u64 = match self.fill {
            Fill::Zero => 0,
            Fill::Ones => u64::MAX,
            Fill::X5A => 0x5A5A_5A5A_5A5A_5A5A,
            // a plausible looking element that was never created: larger than any id so far
            _ => TAG | 0xFFFF_FFFF_0000,
        };
        let off = self.items_off;
        let p = self.buf.as_mut().unwrap().raw_bytes();
        for s in 0..self.n {
            if !occ[s] {
                // SAFETY: unoccupied slot inside the buffer object; any bytes are legal there
                unsafe { std::ptr::write_unaligned(p.add(off + s * 8) as *mut u64, pat) };
            }
        }
        Ok(())
    }

    fn take(&mut self, e: Plain) -> R<u64> {
        let id = e.id().ok_or_else(|| format!("the crate handed out bytes that are not an element ({:#x})", e.0))?;
        if self.held.contains(&id) {
            return Err(format!("the crate handed out element #{id} twice"));
        }
        self.held.push(id);
        Ok(id)
    }
}

macro_rules! cc {
    ($e:expr) => {
        match $e {
            Called::Ok(v) => v,
            Called::Injected => return Ok(true),
            Called::Panic(m) => return Err(format!("unexpected panic: {m}")),
        }
    };
}

/// Returns Ok(true) if an injected panic unwound out of the op.
fn apply(st: &mut St, op: &Op) -> R<bool> {
    let n = st.n;
    let len = st.model.len();
    match op {
        Op::PushBack | Op::PushFront => {
            let back = matches!(op, Op::PushBack);
            let x = Plain::new();
            let xid = x.id().unwrap();
            let r = cc!(st.call(move |b| if back { b.push_back(x) } else { b.push_front(x) }));
            let exp = if n == 0 { Some(xid) } else if len == n { Some(if back { st.model[0] } else { st.model[len - 1] }) } else { None };
            let got = match r {
                Some(e) => Some(st.take(e)?),
                None => None,
            };
            if got != exp {
                return Err(format!("returned element {:?}, expected {:?}", got, exp));
            }
            if n > 0 {
                if back {
                    if len == n {
                        st.model.remove(0);
                    }
                    st.model.push(xid);
                } else {
                    if len == n {
                        st.model.pop();
                    }
                    st.model.insert(0, xid);
                }
            }
        }
        Op::TryPushBack | Op::TryPushFront => {
            let back = matches!(op, Op::TryPushBack);
            let x = Plain::new();
            let xid = x.id().unwrap();
            match cc!(st.call(move |b| if back { b.try_push_back(x) } else { b.try_push_front(x) })) {
                Ok(()) => {
                    if len == n {
                        return Err("try_push returned Ok on a full buffer".into());
                    }
                    if back {
                        st.model.push(xid)
                    } else {
                        st.model.insert(0, xid)
                    }
                }
                Err(e) => {
                    if len != n || st.take(e)? != xid {
                        return Err("try_push returned a wrong Err".into());
                    }
                }
            }
        }
        Op::PopBack | Op::PopFront => {
            let back = matches!(op, Op::PopBack);
            let r = cc!(st.call(move |b| if back { b.pop_back() } else { b.pop_front() }));
            let exp = if len == 0 { None } else { Some(if back { st.model[len - 1] } else { st.model[0] }) };
            let got = match r {
                Some(e) => Some(st.take(e)?),
                None => None,
            };
            if got != exp {
                return Err(format!("pop returned {:?}, expected {:?}", got, exp));
            }
            if len > 0 {
                if back {
                    st.model.pop();
                } else {
                    st.model.remove(0);
                }
            }
        }
        Op::Remove(i) | Op::SwapRemoveBack(i) | Op::SwapRemoveFront(i) => {
            let p = i.resolve(len);
            let kind = match op {
                Op::Remove(_) => 0,
                Op::SwapRemoveBack(_) => 1,
                _ => 2,
            };
            let r = cc!(st.call(move |b| match kind {
                0 => b.remove(p),
                1 => b.swap_remove_back(p),
                _ => b.swap_remove_front(p),
            }));
            let exp = st.model.get(p).copied();
            let got = match r {
                Some(e) => Some(st.take(e)?),
                None => None,
            };
            if got != exp {
                return Err(format!("returned {:?}, expected {:?}", got, exp));
            }
            if p < len {
                match kind {
                    0 => {
                        st.model.remove(p);
                    }
                    1 => {
                        st.model.swap_remove(p);
                    }
                    _ => {
                        st.model.swap(p, 0);
                        st.model.remove(0);
                    }
                }
            }
        }
        Op::Swap(i, j) => {
            let (p, q) = (i.resolve(len), j.resolve(len));
            if p < len && q < len {
                cc!(st.call(move |b| b.swap(p, q)));
                st.model.swap(p, q);
            }
        }
        Op::TruncateBack(i) | Op::TruncateFront(i) => {
            let k = i.resolve(len);
            let back = matches!(op, Op::TruncateBack(_));
            cc!(st.call(move |b| if back { b.truncate_back(k) } else { b.truncate_front(k) }));
            if k < len {
                if back {
                    st.model.truncate(k);
                } else {
                    st.model.drain(..len - k);
                }
            }
        }
        Op::Clear => {
            cc!(st.call(|b| b.clear()));
            st.model.clear();
        }
        Op::Fill | Op::FillSpare => {
            let spare = matches!(op, Op::FillSpare);
            let v = Plain::new();
            let first = v.id().unwrap();
            cc!(st.call(move |b| if spare { b.fill_spare(v) } else { b.fill(v) }));
            let obs = st.observe()?;
            let keep = if spare { len } else { 0 };
            if obs.len() != n || obs[..keep.min(obs.len())] != st.model[..keep.min(len)] || obs[keep.min(obs.len())..].iter().any(|id| *id < first) {
                return Err(format!("contents after fill: {:?} (previous {:?}, fill value #{first})", obs, st.model));
            }
            st.model = obs;
        }
        Op::FillWith | Op::FillSpareWith => {
            let spare = matches!(op, Op::FillSpareWith);
            let mut made = Vec::new();
            let r = {
                let made = &mut made;
                st.call(move |b| {
                    let mut f = || {
                        user_event(FaultKind::Make);
                        let p = Plain::new();
                        made.push(p.id().unwrap());
                        p
                    };
                    if spare {
                        b.fill_spare_with(&mut f)
                    } else {
                        b.fill_with(&mut f)
                    }
                })
            };
            cc!(r);
            let keep = if spare { len } else { 0 };
            let mut m = st.model[..keep].to_vec();
            m.extend(made);
            st.model = m;
        }
        Op::Extend(m, _) | Op::FromIter(m, _) | Op::ExtendPairs(m, _) | Op::Unzip(m, _) => {
            let from_iter = matches!(op, Op::FromIter(..) | Op::Unzip(..));
            let unzip = matches!(op, Op::Unzip(..));
            let pairs = matches!(op, Op::ExtendPairs(..));
            let mut made = Vec::new();
            let m = *m;
            let r = {
                let made = &mut made;
                let mut it = (0..m).map(move |_| {
                    user_event(FaultKind::IterStep);
                    let p = Plain::new();
                    made.push(p.id().unwrap());
                    p
                });
                if from_iter {
                    match catch_unwind(AssertUnwindSafe(|| if unzip { crate::deq::unzip_dyn::<Plain>(n, &mut it) } else { crate::deq::from_iter_dyn::<Plain>(n, &mut it) })) {
                        Ok(b) => {
                            st.buf = Some(b);
                            st.model.clear();
                            Called::Ok(())
                        }
                        Err(_) => {
                            st.buf = Some(make_buf::<Plain>(n, Ctor::New));
                            st.model.clear();
                            Called::Injected
                        }
                    }
                } else {
                    st.call(move |b| if pairs { b.extend_pairs_dyn(&mut it) } else { b.extend_dyn(&mut it) })
                }
            };
            cc!(r);
            st.model.extend(made);
            if st.model.len() > n {
                let cut = st.model.len() - n;
                st.model.drain(..cut);
            }
        }
        Op::ExtendFromSlice(m) => {
            let src: Vec<Plain> = (0..*m).map(|_| Plain::new()).collect();
            let first_clone = NEXT.with(|x| x.get());
            let r = {
                let s = &src[..];
                st.call(move |b| b.extend_from_slice(s))
            };
            cc!(r);
            let take = (*m as usize).min(n);
            let obs = st.observe()?;
            let total = (len + take).min(n);
            let kept = total - take;
            if obs.len() != total || obs[..kept] != st.model[len - kept..] || obs[kept..].iter().any(|id| *id < first_clone) {
                return Err(format!("contents after extend_from_slice({m}): {:?}, previous {:?}", obs, st.model));
            }
            // clones are made in order, so the ids of the appended part ascend
            if obs[kept..].windows(2).any(|w| w[0] >= w[1]) {
                return Err(format!("appended clones out of order: {:?}", &obs[kept..]));
            }
            st.model = obs;
        }
        Op::MakeContiguous => {
            let l = cc!(st.call(|b| b.make_contiguous().len()));
            if l != len {
                return Err("make_contiguous returned a slice of the wrong length".into());
            }
        }
        Op::CloneFrom(s, l) => {
            let l = (*l as usize).min(n);
            let mut src = make_buf::<Plain>(n, Ctor::New);
            if n > 0 {
                for _ in 0..(*s as usize % n) {
                    src.push_back(Plain::new());
                }
                for _ in 0..(*s as usize % n) {
                    src.pop_front();
                }
                for _ in 0..l {
                    src.push_back(Plain::new());
                }
            }
            let first_clone = NEXT.with(|x| x.get());
            let r = {
                let s = &*src;
                st.call(move |b| b.clone_from_dyn(s))
            };
            cc!(r);
            let obs = st.observe()?;
            if obs.len() != l || obs.iter().any(|id| *id < first_clone) || obs.windows(2).any(|w| w[0] >= w[1]) {
                return Err(format!("contents after clone_from: {:?}", obs));
            }
            st.model = obs;
        }
        Op::CloneBuf(_) | Op::ToVec => {
            let first_clone = NEXT.with(|x| x.get());
            let ids: Vec<Option<u64>> = if matches!(op, Op::ToVec) {
                cc!(st.call(|b| b.to_vec())).iter().map(|e| e.id()).collect()
            } else {
                let c = cc!(st.call(|b| b.clone_box()));
                let v = c.iter().map(|e| e.id()).collect();
                v
            };
            if ids.len() != len || ids.iter().any(|i| i.map(|i| i < first_clone).unwrap_or(true)) {
                return Err(format!("clone / to_vec produced {:?} for a buffer of length {len}", ids));
            }
        }
        Op::Drain(spec, script, end) => {
            let ra = spec.resolve(len);
            if range_must_panic(ra.start, ra.end, len) {
                return Ok(false);
            }
            let (a, e) = range_to_pair(ra.start, ra.end, len);
            let (a, e) = (a as usize, e as usize);
            if a > 0 || e < len {
                st.flags |= PF_OUTSIDE;
            }
            let before = st.model.clone();
            let mut got: Vec<Plain> = Vec::new();
            let script = script.clone();
            let end = *end;
            let r = {
                let got = &mut got;
                let before = &before;
                st.call(move |b| -> R<()> {
                    let mut d = b.drain(ra);
                    let (mut lo, mut hi) = (a, e);
                    for s in script.iter() {
                        if d.len() != hi - lo {
                            return Err(format!("drain len() = {} with {} not yet yielded", d.len(), hi - lo));
                        }
                        let (x, want) = match s {
                            Step::Next => (d.next(), if lo < hi { Some(before[lo]) } else { None }),
                            Step::NextBack => (d.next_back(), if lo < hi { Some(before[hi - 1]) } else { None }),
                            _ => continue,
                        };
                        let gid = x.as_ref().and_then(|p| p.id());
                        if let Some(p) = x {
                            got.push(p);
                        }
                        if gid != want {
                            return Err(format!("drain yielded {:?}, expected {:?}", gid, want));
                        }
                        if lo < hi {
                            if matches!(s, Step::Next) {
                                lo += 1
                            } else {
                                hi -= 1
                            }
                        }
                    }
                    match end {
                        End::Drop => drop(d),
                        End::Forget => d.forget(),
                    }
                    Ok(())
                })
            };
            let yielded = !got.is_empty();
            for p in got {
                st.take(p)?;
            }
            cc!(r)?;
            match end {
                End::Drop => {
                    let mut m = before[..a].to_vec();
                    m.extend_from_slice(&before[e..]);
                    st.model = m;
                }
                End::Forget => {
                    let obs = st.observe()?;
                    for id in &obs {
                        if !before.contains(id) {
                            return Err(format!("after leaking the drain the buffer contains element #{id} which was not in it before"));
                        }
                    }
                    st.model = obs;
                    if yielded {
                        st.flags |= PF_FORGET_AFTER_YIELD;
                    }
                }
            }
        }
        Op::IntoIter(script) => {
            let b = st.buf.take().unwrap();
            let mut it = b.into_iter_box();
            let (mut lo, mut hi) = (0, len);
            for s in script {
                let (x, want) = match s {
                    Step::Next => (it.next(), if lo < hi { Some(st.model[lo]) } else { None }),
                    Step::NextBack => (it.next_back(), if lo < hi { Some(st.model[hi - 1]) } else { None }),
                    _ => continue,
                };
                let gid = x.as_ref().and_then(|p| p.id());
                if gid != want {
                    return Err(format!("into_iter yielded {:?}, expected {:?}", gid, want));
                }
                if lo < hi {
                    if matches!(s, Step::Next) {
                        lo += 1
                    } else {
                        hi -= 1
                    }
                }
            }
            drop(it);
            st.buf = Some(make_buf::<Plain>(n, Ctor::New));
            st.model.clear();
        }
        _ => {}
    }
    Ok(false)
}

/// Runs a case over `Plain` elements; returns flags.
pub fn run_plain_case(case: &Case) -> Result<u64, String> {
    NEXT.with(|n| n.set(1));
    let n = case.n as usize;
    let mut st = St {
        n,
        buf: Some(make_buf::<Plain>(n, Ctor::New)),
        model: Vec::new(),
        held: Vec::new(),
        pending: None,
        fired: false,
        items_off: items_offset(n),
        fill: case.fill,
        flags: 0,
    };
    NEXT.with(|x| x.set(1));
    if n > 0 {
        let s = case.start as usize % n;
        let b = st.buf.as_mut().unwrap();
        for _ in 0..s {
            b.push_back(Plain::new());
        }
        for _ in 0..s {
            if let Some(p) = b.pop_front() {
                st.held.push(p.id().unwrap());
            }
        }
        for _ in 0..(case.len as usize).min(n) {
            let p = Plain::new();
            st.model.push(p.id().unwrap());
            b.push_back(p);
        }
    }
    st.poison().map_err(|e| format!("setup: {e}"))?;
    for (i, op) in case.ops.iter().enumerate() {
        let ctx = |m: String| format!("[elements without destructor] op #{i} {}: {m}", render_op(op));
        st.pending = case.fault.filter(|f| f.op_index as usize == i && f.kind != FaultKind::Drop).map(|f| (f.kind, f.k));
        st.fired = false;
        let before = st.model.clone();
        let first_new = NEXT.with(|x| x.get());
        let injected = apply(&mut st, op).map_err(&ctx)?;
        let obs = st.observe().map_err(&ctx)?;
        if injected {
            st.flags |= PF_FAULT_FIRED;
            for id in &obs {
                if !(before.contains(id) || *id >= first_new) {
                    return Err(ctx(format!("after the panic the buffer contains element #{id}, which was neither in it before nor created by the call (contents {:?}, before {:?})", obs, before)));
                }
            }
            st.model = obs;
        } else {
            if st.fired {
                return Err(ctx("the injected panic was swallowed".into()));
            }
            if obs != st.model {
                return Err(ctx(format!("contents {:?}, expected {:?}", obs, st.model)));
            }
        }
        if st.model != before {
            st.flags |= PF_CHANGED;
        }
        st.poison().map_err(&ctx)?;
    }
    Ok(st.flags)
}
