//! Sized elements at capacities around 2^31 .. 2^32 (C01 / C02 / C07: "for all capacities").  The zero-sized engine
//! reaches such capacities too, but with a zero-sized element a slot computation that lands on the wrong slot cannot
//! lose or overwrite anything.  Here the buffer holds bytes: `boxed()` reserves 2-4 GiB of address space, of which
//! only the pages around the front are ever touched, because every case keeps the length small and uses operations
//! whose cost depends on the length only.  The front is moved next to either end of the array (push_front from an
//! empty buffer, pops), so that `start + offset` crosses N and 2^32.  Reference: VecDeque<u8>.

use circular_buffer::CircularBuffer;
use serde::{Deserialize, Serialize};
use std::collections::VecDeque;

pub const HCAPS: [usize; 6] = [(1 << 31) + 1, 3 << 30, (1usize << 32) - 2, (1usize << 32) - 1, 1 << 32, (1usize << 32) + 1];

#[derive(Debug, Clone, PartialEq, Eq, Hash, Serialize, Deserialize)]
pub enum HOp {
    PushBack,
    PushFront,
    TryPushBack,
    TryPushFront,
    PopBack,
    PopFront,
    Remove(u16),
    Swap(u16, u16),
    SwapRemoveBack(u16),
    SwapRemoveFront(u16),
    TruncateBack(u16),
    TruncateFront(u16),
    Clear,
    Extend(u8),
    ExtendFromSlice(u8),
    Drain(u16, u16, u8),
    SetAt(u16),
    RangeMut(u16, u16),
    Write(u8),
    Read(u8),
    Consume(u8),
}

#[derive(Debug, Clone, PartialEq, Eq, Hash, Serialize, Deserialize)]
pub struct HCase {
    pub cap_index: u8,
    /// elements pushed at the front first (moves the front to N - fronts), then `backs` at the back
    pub fronts: u8,
    pub backs: u8,
    /// elements popped from the front afterwards (moves the front towards / across the end of the array)
    pub pops: u8,
    pub ops: Vec<HOp>,
}

fn pos(k: u16, len: usize) -> usize {
    // 0..=len+1 and "far out of range"
    if k == u16::MAX {
        usize::MAX
    } else {
        (k as usize * (len + 2)) >> 16
    }
}

fn check<const N: usize>(b: &CircularBuffer<N, u8>, m: &VecDeque<u8>, what: &str) -> Result<(), String> {
    if b.len() != m.len() || b.is_empty() != m.is_empty() {
        return Err(format!("{what}: len() = {}, expected {}", b.len(), m.len()));
    }
    let got: Vec<u8> = b.iter().copied().collect();
    let want: Vec<u8> = m.iter().copied().collect();
    if got != want {
        return Err(format!("{what}: iter() yields {:?}, expected {:?}", got, want));
    }
    let (s1, s2) = b.as_slices();
    let mut cat = s1.to_vec();
    cat.extend_from_slice(s2);
    if cat != want {
        return Err(format!("{what}: as_slices() gives {:?} + {:?}, expected {:?}", s1, s2, want));
    }
    for i in 0..=want.len() {
        if b.get(i) != want.get(i) || b.nth_front(i) != want.get(i) {
            return Err(format!("{what}: get({i}) = {:?}, expected {:?}", b.get(i), want.get(i)));
        }
        let back = want.len().checked_sub(1 + i).map(|j| &want[j]);
        if b.nth_back(i) != back {
            return Err(format!("{what}: nth_back({i}) = {:?}, expected {:?}", b.nth_back(i), back));
        }
    }
    if b.front() != want.first() || b.back() != want.last() {
        return Err(format!("{what}: front()/back() = {:?}/{:?}, expected {:?}/{:?}", b.front(), b.back(), want.first(), want.last()));
    }
    if !b.iter().rev().eq(want.iter().rev()) || b.to_vec() != want {
        return Err(format!("{what}: reverse iteration or to_vec() disagree with {:?}", want));
    }
    Ok(())
}

fn run_n<const N: usize>(c: &HCase) -> Result<bool, String> {
    use std::io::{BufRead, Read, Write};
    let mut b = CircularBuffer::<N, u8>::boxed();
    let mut m: VecDeque<u8> = VecDeque::new();
    let mut next = 1u8;
    let mut mk = move || {
        let v = next;
        next = if next >= 250 { 1 } else { next + 1 };
        v
    };
    for _ in 0..c.fronts {
        let v = mk();
        if b.push_front(v).is_some() {
            return Err("setup: push_front displaced an element".into());
        }
        m.push_front(v);
    }
    for _ in 0..c.backs {
        let v = mk();
        if b.push_back(v).is_some() {
            return Err("setup: push_back displaced an element".into());
        }
        m.push_back(v);
    }
    for _ in 0..c.pops {
        if b.pop_front() != m.pop_front() {
            return Err("setup: pop_front returned the wrong element".into());
        }
    }
    check(&b, &m, "setup")?;
    for (i, op) in c.ops.iter().enumerate() {
        let len = m.len();
        let what = format!("op #{i} {op:?}");
        match op {
            HOp::PushBack => {
                let v = mk();
                if b.push_back(v).is_some() {
                    return Err(format!("{what}: displaced an element although the buffer has room"));
                }
                m.push_back(v);
            }
            HOp::PushFront => {
                let v = mk();
                if b.push_front(v).is_some() {
                    return Err(format!("{what}: displaced an element although the buffer has room"));
                }
                m.push_front(v);
            }
            HOp::TryPushBack => {
                let v = mk();
                if b.try_push_back(v).is_err() {
                    return Err(format!("{what}: refused although the buffer has room"));
                }
                m.push_back(v);
            }
            HOp::TryPushFront => {
                let v = mk();
                if b.try_push_front(v).is_err() {
                    return Err(format!("{what}: refused although the buffer has room"));
                }
                m.push_front(v);
            }
            HOp::PopBack => {
                if b.pop_back() != m.pop_back() {
                    return Err(format!("{what}: wrong element"));
                }
            }
            HOp::PopFront => {
                if b.pop_front() != m.pop_front() {
                    return Err(format!("{what}: wrong element"));
                }
            }
            HOp::Remove(k) => {
                let p = pos(*k, len);
                if b.remove(p) != m.remove(p) {
                    return Err(format!("{what}: wrong element"));
                }
            }
            HOp::Swap(x, y) => {
                if len > 0 {
                    let (p, q) = (pos(*x, len) % len, pos(*y, len) % len);
                    b.swap(p, q);
                    m.swap(p, q);
                }
            }
            HOp::SwapRemoveBack(k) => {
                let p = pos(*k, len);
                if b.swap_remove_back(p) != m.swap_remove_back(p) {
                    return Err(format!("{what}: wrong element"));
                }
            }
            HOp::SwapRemoveFront(k) => {
                let p = pos(*k, len);
                if b.swap_remove_front(p) != m.swap_remove_front(p) {
                    return Err(format!("{what}: wrong element"));
                }
            }
            HOp::TruncateBack(k) => {
                let p = pos(*k, len);
                b.truncate_back(p);
                m.truncate(p);
            }
            HOp::TruncateFront(k) => {
                let p = pos(*k, len);
                b.truncate_front(p);
                let cut = len.saturating_sub(p);
                m.drain(..cut);
            }
            HOp::Clear => {
                b.clear();
                m.clear();
            }
            HOp::Extend(k) => {
                let v: Vec<u8> = (0..*k % 40).map(|_| mk()).collect();
                b.extend(v.iter().copied());
                m.extend(v.iter().copied());
            }
            HOp::ExtendFromSlice(k) => {
                let v: Vec<u8> = (0..*k % 40).map(|_| mk()).collect();
                b.extend_from_slice(&v);
                m.extend(v.iter().copied());
            }
            HOp::Drain(x, y, steps) => {
                let (mut p, mut q) = (pos(*x, len).min(len), pos(*y, len).min(len));
                if p > q {
                    std::mem::swap(&mut p, &mut q);
                }
                let mut d = b.drain(p..q);
                let mut e = m.drain(p..q);
                for s in 0..*steps % 5 {
                    let (g, w) = if s % 2 == 0 { (d.next(), e.next()) } else { (d.next_back(), e.next_back()) };
                    if g != w {
                        return Err(format!("{what}: the drain yielded {:?}, expected {:?}", g, w));
                    }
                }
                if d.len() != e.len() {
                    return Err(format!("{what}: drain len() = {}, expected {}", d.len(), e.len()));
                }
            }
            HOp::SetAt(k) => {
                let p = pos(*k, len);
                let v = mk();
                match (b.get_mut(p), m.get_mut(p)) {
                    (Some(x), Some(y)) => {
                        *x = v;
                        *y = v;
                    }
                    (None, None) => {}
                    _ => return Err(format!("{what}: get_mut({p}) disagrees with the model about being in range")),
                }
                if p < len {
                    b[p] = b[p].wrapping_add(1);
                    m[p] = m[p].wrapping_add(1);
                }
            }
            HOp::RangeMut(x, y) => {
                let (mut p, mut q) = (pos(*x, len).min(len), pos(*y, len).min(len));
                if p > q {
                    std::mem::swap(&mut p, &mut q);
                }
                if !b.range(p..q).eq(m.range(p..q)) {
                    return Err(format!("{what}: range({p}..{q}) disagrees with the model"));
                }
                for (t, u) in b.range_mut(p..q).zip(m.range_mut(p..q)) {
                    *t = t.wrapping_mul(7);
                    *u = *t;
                }
            }
            HOp::Write(k) => {
                let v: Vec<u8> = (0..*k % 40).map(|_| mk()).collect();
                if b.write(&v).ok() != Some(v.len()) {
                    return Err(format!("{what}: wrong count"));
                }
                m.extend(v.iter().copied());
            }
            HOp::Read(k) => {
                let mut dst = vec![0u8; (*k % 40) as usize];
                let got = b.read(&mut dst).map_err(|e| e.to_string())?;
                let want: Vec<u8> = m.drain(..dst.len().min(len)).collect();
                if got != want.len() || dst[..got] != want[..] {
                    return Err(format!("{what}: delivered {:?}, expected {:?}", &dst[..got], want));
                }
            }
            HOp::Consume(k) => {
                let p = b.fill_buf().map_err(|e| e.to_string())?.to_vec();
                if p.is_empty() != m.is_empty() || p.len() > len || !p.iter().eq(m.iter().take(p.len())) {
                    return Err(format!("{what}: fill_buf returned {:?} with {:?} buffered", p, m));
                }
                let k = (*k as usize % 40).min(len);
                b.consume(k);
                m.drain(..k);
            }
        }
        check(&b, &m, &what)?;
    }
    Ok(c.fronts > 0 || c.pops > 0)
}

pub fn run_hcase(c: &HCase) -> Result<bool, String> {
    const C0: usize = HCAPS[0];
    const C1: usize = HCAPS[1];
    const C2: usize = HCAPS[2];
    const C3: usize = HCAPS[3];
    const C4: usize = HCAPS[4];
    const C5: usize = HCAPS[5];
    match c.cap_index {
        0 => run_n::<C0>(c),
        1 => run_n::<C1>(c),
        2 => run_n::<C2>(c),
        3 => run_n::<C3>(c),
        4 => run_n::<C4>(c),
        5 => run_n::<C5>(c),
        k => Err(format!("capacity index {k} not in table")),
    }
}

pub fn enum_ops() -> Vec<HOp> {
    let mut v = vec![HOp::PushBack, HOp::PushFront, HOp::TryPushBack, HOp::TryPushFront, HOp::PopBack, HOp::PopFront, HOp::Clear];
    for k in [0u16, 13000, 26000, 40000, 52000, 65000, u16::MAX] {
        v.push(HOp::Remove(k));
        v.push(HOp::SwapRemoveBack(k));
        v.push(HOp::SwapRemoveFront(k));
        v.push(HOp::TruncateBack(k));
        v.push(HOp::TruncateFront(k));
        v.push(HOp::SetAt(k));
        for j in [0u16, 30000, 65000] {
            v.push(HOp::Swap(k, j));
            v.push(HOp::Drain(k, j, 0));
            v.push(HOp::Drain(k, j, 3));
            v.push(HOp::RangeMut(k, j));
        }
    }
    for k in [0u8, 1, 2, 5, 33] {
        v.push(HOp::Extend(k));
        v.push(HOp::ExtendFromSlice(k));
        v.push(HOp::Write(k));
        v.push(HOp::Read(k));
        v.push(HOp::Consume(k));
    }
    v
}

pub fn enum_cases() -> Vec<HCase> {
    let mut out = Vec::new();
    let ops = enum_ops();
    for cap_index in 0..HCAPS.len() as u8 {
        for (fronts, backs, pops) in [(0u8, 0u8, 0u8), (0, 4, 0), (1, 0, 0), (1, 3, 0), (3, 3, 0), (2, 5, 1), (2, 5, 2), (3, 4, 3), (5, 0, 2), (4, 6, 5)] {
            for op in &ops {
                out.push(HCase { cap_index, fronts, backs, pops, ops: vec![op.clone(), HOp::PushBack, HOp::PushFront, HOp::PopBack] });
            }
        }
    }
    out
}

pub fn hcase_strategy() -> proptest::strategy::BoxedStrategy<HCase> {
    use proptest::prelude::*;
    let k = prop_oneof![6 => any::<u16>(), 1 => Just(u16::MAX), 1 => Just(0u16)];
    let op = prop_oneof![
        4 => Just(HOp::PushBack),
        4 => Just(HOp::PushFront),
        1 => Just(HOp::TryPushBack),
        1 => Just(HOp::TryPushFront),
        3 => Just(HOp::PopBack),
        3 => Just(HOp::PopFront),
        2 => k.clone().prop_map(HOp::Remove),
        1 => (k.clone(), k.clone()).prop_map(|(a, b)| HOp::Swap(a, b)),
        1 => k.clone().prop_map(HOp::SwapRemoveBack),
        1 => k.clone().prop_map(HOp::SwapRemoveFront),
        1 => k.clone().prop_map(HOp::TruncateBack),
        1 => k.clone().prop_map(HOp::TruncateFront),
        1 => Just(HOp::Clear),
        2 => (0u8..12).prop_map(HOp::Extend),
        2 => (0u8..12).prop_map(HOp::ExtendFromSlice),
        2 => (k.clone(), k.clone(), 0u8..5).prop_map(|(a, b, s)| HOp::Drain(a, b, s)),
        1 => k.clone().prop_map(HOp::SetAt),
        1 => (k.clone(), k.clone()).prop_map(|(a, b)| HOp::RangeMut(a, b)),
        1 => (0u8..12).prop_map(HOp::Write),
        1 => (0u8..12).prop_map(HOp::Read),
        1 => (0u8..12).prop_map(HOp::Consume),
    ];
    (0u8..HCAPS.len() as u8, 0u8..6, 0u8..7, 0u8..8, proptest::collection::vec(op, 0..40))
        .prop_map(|(cap_index, fronts, backs, pops, ops)| HCase { cap_index, fronts, backs, pops: pops.min(fronts + backs), ops })
        .boxed()
}

/// (evaluations, distinct non-trivial, samples, failure)
pub fn run(seed: u64, prop_cases: u32, threads: usize) -> (u64, u64, Vec<String>, Option<(HCase, String)>) {
    use proptest::strategy::{Strategy, ValueTree};
    use proptest::test_runner::{Config, RngAlgorithm, TestRng, TestRunner};
    use std::sync::atomic::{AtomicUsize, Ordering};
    use std::sync::Mutex;
    let mut cases = enum_cases();
    let mut sb = [0u8; 32];
    sb[..8].copy_from_slice(&seed.to_le_bytes());
    let mut runner = TestRunner::new_with_rng(Config { failure_persistence: None, ..Config::default() }, TestRng::from_seed(RngAlgorithm::ChaCha, &sb));
    let strat = hcase_strategy();
    cases.extend((0..prop_cases).map(|_| strat.new_tree(&mut runner).unwrap().current()));
    let next = AtomicUsize::new(0);
    let fail: Mutex<Option<(usize, HCase, String)>> = Mutex::new(None);
    let nontrivial = Mutex::new(std::collections::HashSet::new());
    std::thread::scope(|s| {
        for _ in 0..threads {
            s.spawn(|| loop {
                let i = next.fetch_add(1, Ordering::Relaxed);
                if i >= cases.len() || fail.lock().unwrap().is_some() {
                    break;
                }
                let c = &cases[i];
                let r = std::panic::catch_unwind(std::panic::AssertUnwindSafe(|| run_hcase(c)));
                let r = match r {
                    Ok(r) => r,
                    Err(p) => Err(format!("unexpected panic: {}", crate::interp::panic_msg(&p))),
                };
                match r {
                    Ok(nt) => {
                        if nt {
                            use std::hash::{Hash, Hasher};
                            let mut h = std::collections::hash_map::DefaultHasher::new();
                            c.hash(&mut h);
                            nontrivial.lock().unwrap().insert(h.finish());
                        }
                    }
                    Err(m) => {
                        let mut f = fail.lock().unwrap();
                        if f.as_ref().map_or(true, |(j, _, _)| i < *j) {
                            *f = Some((i, c.clone(), m));
                        }
                    }
                }
            });
        }
    });
    let samples = cases.iter().step_by(cases.len() / 5 + 1).map(|c| format!("{c:?}")).collect();
    let failure = fail.into_inner().unwrap().map(|(_, c, m)| shrink(c, m));
    (cases.len() as u64, nontrivial.into_inner().unwrap().len() as u64, samples, failure)
}

/// Greedy shrinking: drop operations, then reduce the layout numbers, while the case keeps failing.
fn shrink(mut c: HCase, mut msg: String) -> (HCase, String) {
    let fails = |c: &HCase| -> Option<String> {
        match std::panic::catch_unwind(std::panic::AssertUnwindSafe(|| run_hcase(c))) {
            Ok(Ok(_)) => None,
            Ok(Err(m)) => Some(m),
            Err(p) => Some(format!("unexpected panic: {}", crate::interp::panic_msg(&p))),
        }
    };
    let mut progress = true;
    while progress {
        progress = false;
        for i in (0..c.ops.len()).rev() {
            let mut t = c.clone();
            t.ops.remove(i);
            if let Some(m) = fails(&t) {
                c = t;
                msg = m;
                progress = true;
            }
        }
        for f in 0..3 {
            let mut t = c.clone();
            match f {
                0 if t.fronts > 0 => t.fronts -= 1,
                1 if t.backs > 0 => t.backs -= 1,
                2 if t.pops > 0 => t.pops -= 1,
                _ => continue,
            }
            t.pops = t.pops.min(t.fronts + t.backs);
            if let Some(m) = fails(&t) {
                c = t;
                msg = m;
                progress = true;
            }
        }
    }
    (c, msg)
}
