//! C19, second half of the space: zero-sized elements in buffers that are FULL (or one or two short of it) at extreme
//! capacities.  The counter engine (`zst_engine`) keeps lengths small, because its elements count their destructor
//! runs; an element type without a destructor lets a buffer of usize::MAX elements be built in O(1) from an array,
//! so the arithmetic at `len == N` (`len + 1`, `start + len`, `N - len`) is reached.  Only operations whose cost does
//! not grow with the length for such a type are used.  Observable: lengths and Some / None / Err shapes.

/// Half of the address space (2^63 on 64-bit targets) and the square root of its size (2^32 there).
pub const HALF: usize = (usize::MAX >> 1) + 1;
pub const SQRT: usize = 1 << (usize::BITS / 2);

use circular_buffer::CircularBuffer;
use serde::{Deserialize, Serialize};

#[derive(Debug, Clone, Copy, PartialEq, Eq, PartialOrd, Ord, Hash)]
pub struct Z;

pub const FCAPS: [usize; 7] = [usize::MAX, usize::MAX - 1, HALF + 1, HALF, SQRT + 1, SQRT - 1, 65537];

#[derive(Debug, Clone, Copy, PartialEq, Eq, Hash, Serialize, Deserialize)]
pub enum FI {
    At(u8),
    FromLen(u8),
    LenPlus(u8),
    Max,
}

#[derive(Debug, Clone, Copy, PartialEq, Eq, Hash, Serialize, Deserialize)]
pub enum FOp {
    PushBack,
    PushFront,
    TryPushBack,
    TryPushFront,
    PopBack,
    PopFront,
    Get(FI),
    Remove(FI),
    Swap(FI, FI),
    SwapRemoveBack(FI),
    SwapRemoveFront(FI),
    TruncateBack(FI),
    TruncateFront(FI),
    Clear,
    Extend(u8),
    ExtendFromSlice(u8),
    FillSpare,
    Drain(FI, FI, u8),
    Range(FI, FI),
    MakeContiguous,
    Views,
    /// range / range_mut / drain with a (start bound, end bound) pair from the bound table, usize::MAX included
    Bounds(u8, u8, u8),
}

#[derive(Debug, Clone, PartialEq, Eq, Hash, Serialize, Deserialize)]
pub struct FCase {
    pub cap_index: u8,
    /// elements missing from a full buffer (0..=2)
    pub missing: u8,
    /// how the front was moved: k > 0: k times pop_front + push_back; k < 0: |k| times pop_back + push_front
    pub rotate: i8,
    pub ops: Vec<FOp>,
}

fn res(i: FI, len: usize) -> usize {
    match i {
        FI::At(k) => k as usize,
        FI::FromLen(k) => len.saturating_sub(k as usize),
        FI::LenPlus(k) => len.saturating_add(k as usize),
        FI::Max => usize::MAX,
    }
}

fn views<const N: usize>(b: &CircularBuffer<N, Z>, len: usize, what: &str) -> Result<(), String> {
    let (s1, s2) = b.as_slices();
    if b.len() != len || b.is_empty() != (len == 0) || b.is_full() != (len == N) {
        return Err(format!("{what}: len() = {}, is_empty() = {}, is_full() = {}; expected length {len} of {N}", b.len(), b.is_empty(), b.is_full()));
    }
    if s1.len().checked_add(s2.len()) != Some(len) {
        return Err(format!("{what}: as_slices() has {} + {} elements, expected {len}", s1.len(), s2.len()));
    }
    let it = b.iter();
    if it.len() != len || it.size_hint() != (len, Some(len)) {
        return Err(format!("{what}: iter().len() = {}, expected {len}", it.len()));
    }
    if b.front().is_some() != (len > 0) || b.back().is_some() != (len > 0) {
        return Err(format!("{what}: front()/back() disagree with length {len}"));
    }
    for i in [0, 1, len.wrapping_sub(1), len, len.saturating_add(1), N.wrapping_sub(1), N, usize::MAX] {
        if b.get(i).is_some() != (i < len) || b.nth_back(i).is_some() != (i < len) || b.nth_front(i).is_some() != (i < len) {
            return Err(format!("{what}: get({i}) / nth_back({i}) disagree with length {len}"));
        }
    }
    Ok(())
}

fn run_n<const N: usize>(c: &FCase) -> Result<bool, String>
where
    [Z; N]: Sized,
{
    let mut b: CircularBuffer<N, Z> = CircularBuffer::from([Z; N]);
    let mut len = N;
    views(&b, len, "a buffer built from an array of N elements")?;
    for _ in 0..c.missing.min(2) {
        if b.pop_back().is_none() {
            return Err("setup: pop_back on a full buffer returned None".into());
        }
        len -= 1;
    }
    for _ in 0..c.rotate.unsigned_abs() {
        let (a, z) = if c.rotate > 0 { (b.pop_front(), b.push_back(Z)) } else { (b.pop_back(), b.push_front(Z)) };
        if a.is_none() || z.is_some() {
            return Err("setup: pop + push on a non-empty buffer misbehaved".into());
        }
    }
    views(&b, len, "setup")?;
    for (i, op) in c.ops.iter().enumerate() {
        let what = format!("op #{i} {op:?} at length N - {}", N - len);
        match *op {
            FOp::PushBack | FOp::PushFront => {
                let r = if matches!(op, FOp::PushBack) { b.push_back(Z) } else { b.push_front(Z) };
                if r.is_some() != (len == N) {
                    return Err(format!("{what}: returned {:?}", r));
                }
                len = len.saturating_add(1).min(N);
            }
            FOp::TryPushBack | FOp::TryPushFront => {
                let r = if matches!(op, FOp::TryPushBack) { b.try_push_back(Z) } else { b.try_push_front(Z) };
                if r.is_err() != (len == N) {
                    return Err(format!("{what}: returned {:?}", r));
                }
                if r.is_ok() {
                    len += 1;
                }
            }
            FOp::PopBack | FOp::PopFront => {
                let r = if matches!(op, FOp::PopBack) { b.pop_back() } else { b.pop_front() };
                if r.is_some() != (len > 0) {
                    return Err(format!("{what}: returned {:?}", r));
                }
                len = len.saturating_sub(1);
            }
            FOp::Get(i) => {
                let p = res(i, len);
                if b.get(p).is_some() != (p < len) || b.get_mut(p).is_some() != (p < len) || b.nth_back_mut(p).is_some() != (p < len) {
                    return Err(format!("{what}: get({p}) disagrees with the length"));
                }
            }
            FOp::Remove(i) => {
                let p = res(i, len);
                let r = b.remove(p);
                if r.is_some() != (p < len) {
                    return Err(format!("{what}: remove({p}) returned {:?}", r));
                }
                if r.is_some() {
                    len -= 1;
                }
            }
            FOp::Swap(i, j) => {
                if len > 0 {
                    b.swap(res(i, len) % len, res(j, len) % len);
                }
            }
            FOp::SwapRemoveBack(i) | FOp::SwapRemoveFront(i) => {
                let p = res(i, len);
                let r = if matches!(op, FOp::SwapRemoveBack(_)) { b.swap_remove_back(p) } else { b.swap_remove_front(p) };
                if r.is_some() != (p < len) {
                    return Err(format!("{what}: returned {:?} for position {p}", r));
                }
                if r.is_some() {
                    len -= 1;
                }
            }
            FOp::TruncateBack(i) | FOp::TruncateFront(i) => {
                let p = res(i, len);
                if matches!(op, FOp::TruncateBack(_)) {
                    b.truncate_back(p)
                } else {
                    b.truncate_front(p)
                }
                len = len.min(p);
            }
            FOp::Clear => {
                b.clear();
                len = 0;
            }
            FOp::Extend(m) => {
                b.extend((0..m % 8).map(|_| Z));
                len = len.saturating_add((m % 8) as usize).min(N);
            }
            FOp::ExtendFromSlice(m) => {
                b.extend_from_slice(&[Z; 8][..(m % 8) as usize]);
                len = len.saturating_add((m % 8) as usize).min(N);
            }
            FOp::FillSpare => {
                // linear in the free space, which is at most a few elements here
                if N - len <= 16 {
                    b.fill_spare(Z);
                    len = N;
                }
            }
            FOp::Drain(x, y, steps) => {
                let (mut p, mut q) = (res(x, len).min(len), res(y, len).min(len));
                if p > q {
                    std::mem::swap(&mut p, &mut q);
                }
                let mut d = b.drain(p..q);
                let mut rem = q - p;
                for s in 0..steps % 4 {
                    let g = if s % 2 == 0 { d.next() } else { d.next_back() };
                    if g.is_some() != (rem > 0) {
                        return Err(format!("{what}: the drain yielded {:?} with {rem} elements left", g));
                    }
                    rem = rem.saturating_sub(1);
                }
                if d.len() != rem || d.size_hint() != (rem, Some(rem)) {
                    return Err(format!("{what}: drain len() = {}, expected {rem}", d.len()));
                }
                drop(d);
                len -= q - p;
            }
            FOp::Range(x, y) => {
                let (mut p, mut q) = (res(x, len).min(len), res(y, len).min(len));
                if p > q {
                    std::mem::swap(&mut p, &mut q);
                }
                let mut r = b.range(p..q);
                if r.len() != q - p {
                    return Err(format!("{what}: range({p}..{q}).len() = {}", r.len()));
                }
                if r.next().is_some() != (q > p) || r.next_back().is_some() != (q - p > 1) || r.len() != (q - p).saturating_sub(2) {
                    return Err(format!("{what}: stepping range({p}..{q}) from both ends disagrees with its length"));
                }
                let rm = b.range_mut(p..q);
                if rm.len() != q - p {
                    return Err(format!("{what}: range_mut({p}..{q}).len() = {}", rm.len()));
                }
            }
            FOp::Bounds(sk, ek, which) => {
                use std::ops::Bound;
                let bound = |k: u8| -> Bound<usize> {
                    match k % 10 {
                        0 => Bound::Unbounded,
                        1 => Bound::Included(0),
                        2 => Bound::Excluded(0),
                        3 => Bound::Included(len.wrapping_sub(1)),
                        4 => Bound::Excluded(len),
                        5 => Bound::Included(len),
                        6 => Bound::Included(usize::MAX),
                        7 => Bound::Excluded(usize::MAX),
                        8 => Bound::Included(usize::MAX - 1),
                        _ => Bound::Excluded(len.wrapping_sub(1)),
                    }
                };
                let (sb, eb) = (bound(sk), bound(ek));
                let must = crate::model::range_must_panic(sb, eb, len);
                let (lo, hi) = crate::model::range_to_pair(sb, eb, len);
                let r = std::panic::catch_unwind(std::panic::AssertUnwindSafe(|| match which % 3 {
                    0 => b.range((sb, eb)).len(),
                    1 => b.range_mut((sb, eb)).len(),
                    _ => {
                        let d = b.drain((sb, eb));
                        let l = d.len();
                        drop(d);
                        l
                    }
                }));
                match r {
                    Err(_) if must => {}
                    Err(_) => return Err(format!("{what}: panicked although the range {:?} is valid for length {len}", (sb, eb))),
                    Ok(_) if must => return Err(format!("{what}: did not panic although the range {:?} is not valid for length {len}", (sb, eb))),
                    Ok(l) => {
                        if l as u128 != hi - lo {
                            return Err(format!("{what}: the iterator over {:?} has {l} elements, expected {}", (sb, eb), hi - lo));
                        }
                        if which % 3 == 2 {
                            len -= l;
                        }
                    }
                }
            }
            FOp::MakeContiguous => {
                let s = b.make_contiguous();
                if s.len() != len {
                    return Err(format!("{what}: make_contiguous() returned {} elements, expected {len}", s.len()));
                }
                if !b.as_slices().1.is_empty() || !b.as_mut_slices().1.is_empty() {
                    return Err(format!("{what}: as_slices() / as_mut_slices() report two slices after make_contiguous()"));
                }
            }
            FOp::Views => {}
        }
        views(&b, len, &what)?;
    }
    let it = b.into_iter();
    if it.len() != len {
        return Err(format!("into_iter().len() = {}, expected {len}", it.len()));
    }
    Ok(c.missing == 0 || c.rotate != 0)
}

pub fn run_fcase(c: &FCase) -> Result<bool, String> {
    match c.cap_index {
        0 => run_n::<{ usize::MAX }>(c),
        1 => run_n::<{ usize::MAX - 1 }>(c),
        2 => run_n::<{ HALF + 1 }>(c),
        3 => run_n::<{ HALF }>(c),
        4 => run_n::<{ SQRT + 1 }>(c),
        5 => run_n::<{ SQRT - 1 }>(c),
        6 => run_n::<65537>(c),
        k => Err(format!("capacity index {k} not in table")),
    }
}

pub fn all_ops() -> Vec<FOp> {
    let is = [FI::At(0), FI::At(1), FI::FromLen(2), FI::FromLen(1), FI::FromLen(0), FI::LenPlus(1), FI::Max];
    let mut v = vec![
        FOp::PushBack, FOp::PushFront, FOp::TryPushBack, FOp::TryPushFront, FOp::PopBack, FOp::PopFront, FOp::Clear, FOp::FillSpare, FOp::MakeContiguous,
        FOp::Views, FOp::Extend(1), FOp::Extend(3), FOp::ExtendFromSlice(1), FOp::ExtendFromSlice(5),
    ];
    for i in is {
        v.extend([FOp::Get(i), FOp::Remove(i), FOp::SwapRemoveBack(i), FOp::SwapRemoveFront(i), FOp::TruncateBack(i), FOp::TruncateFront(i)]);
    }
    for sk in 0..10u8 {
        for ek in 0..10u8 {
            for which in 0..3u8 {
                v.push(FOp::Bounds(sk, ek, which));
            }
        }
    }
    for i in [FI::At(0), FI::At(1), FI::FromLen(1), FI::FromLen(0)] {
        for j in [FI::At(0), FI::At(2), FI::FromLen(1), FI::FromLen(0)] {
            v.extend([FOp::Swap(i, j), FOp::Drain(i, j, 0), FOp::Drain(i, j, 3), FOp::Range(i, j)]);
        }
    }
    v
}

pub fn enum_cases(thorough: bool) -> Vec<FCase> {
    let ops = all_ops();
    let mut out = Vec::new();
    for cap_index in 0..FCAPS.len() as u8 {
        for missing in 0..=2u8 {
            for rotate in [0i8, 1, 2, -1, -2] {
                for a in &ops {
                    out.push(FCase { cap_index, missing, rotate, ops: vec![*a, FOp::PushBack, FOp::PopFront, FOp::PushFront] });
                    if thorough || (cap_index < 2 && rotate.abs() <= 1) {
                        for z in &ops {
                            if matches!(z, FOp::Bounds(..)) {
                                continue;
                            }
                            out.push(FCase { cap_index, missing, rotate, ops: vec![*a, *z, FOp::TryPushBack] });
                        }
                    }
                }
            }
        }
    }
    out
}

/// (evaluations, distinct non-trivial, samples, failure)
pub fn run(thorough: bool) -> (u64, u64, Vec<String>, Option<(FCase, String)>) {
    let cases = enum_cases(thorough);
    let mut nontrivial = 0u64;
    for c in &cases {
        let r = match std::panic::catch_unwind(std::panic::AssertUnwindSafe(|| run_fcase(c))) {
            Ok(r) => r,
            Err(p) => Err(format!("unexpected panic: {}", crate::interp::panic_msg(&p))),
        };
        match r {
            Ok(nt) => nontrivial += nt as u64,
            Err(m) => {
                // shortest failing prefix
                let mut small = c.clone();
                let mut msg = m;
                for k in 0..c.ops.len() {
                    let t = FCase { ops: c.ops[..k].to_vec(), ..c.clone() };
                    let r = match std::panic::catch_unwind(std::panic::AssertUnwindSafe(|| run_fcase(&t))) {
                        Ok(r) => r,
                        Err(p) => Err(format!("unexpected panic: {}", crate::interp::panic_msg(&p))),
                    };
                    if let Err(m2) = r {
                        small = t;
                        msg = m2;
                        break;
                    }
                }
                return (cases.len() as u64, nontrivial, Vec::new(), Some((small, msg)));
            }
        }
    }
    let samples = cases.iter().step_by(cases.len() / 5 + 1).map(|c| format!("{c:?}")).collect();
    (cases.len() as u64, nontrivial, samples, None)
}
