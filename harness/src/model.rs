//! Pieces of the reference model that are shared by several engines (DESIGN 2.2).
//! Written from the crate documentation; nothing here mentions `start`.

use std::ops::Bound;

/// Range translation in 128-bit arithmetic (std slice convention, as documented for
/// `range`/`range_mut`/`drain`): returns (s, e); the call must panic iff `s > e || e > len`.
pub fn range_to_pair(start: Bound<usize>, end: Bound<usize>, len: usize) -> (u128, u128) {
    let s = match start {
        Bound::Included(x) => x as u128,
        Bound::Excluded(x) => x as u128 + 1,
        Bound::Unbounded => 0,
    };
    let e = match end {
        Bound::Included(x) => x as u128 + 1,
        Bound::Excluded(x) => x as u128,
        Bound::Unbounded => len as u128,
    };
    (s, e)
}

pub fn range_must_panic(start: Bound<usize>, end: Bound<usize>, len: usize) -> bool {
    let (s, e) = range_to_pair(start, end, len);
    s > e || e > len as u128
}

/// Bounded deque over plain values: the whole documented sequence semantics in a few lines.
#[derive(Debug, Clone, PartialEq, Eq)]
pub struct BoundedDeque<T> {
    pub cap: usize,
    pub items: Vec<T>,
}

impl<T: Clone> BoundedDeque<T> {
    pub fn new(cap: usize) -> Self {
        BoundedDeque { cap, items: Vec::new() }
    }
    pub fn push_back(&mut self, x: T) -> Option<T> {
        if self.cap == 0 {
            return Some(x);
        }
        let r = if self.items.len() == self.cap { Some(self.items.remove(0)) } else { None };
        self.items.push(x);
        r
    }
    pub fn push_front(&mut self, x: T) -> Option<T> {
        if self.cap == 0 {
            return Some(x);
        }
        let r = if self.items.len() == self.cap { self.items.pop() } else { None };
        self.items.insert(0, x);
        r
    }
    pub fn extend_back(&mut self, xs: &[T]) {
        for x in xs {
            self.push_back(x.clone());
        }
    }
}
