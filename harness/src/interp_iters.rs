//! Iterator consumption scripts (C08) for borrowing and owning iterators.

use crate::case::*;
use crate::deq::{Deq, IntoIterDyn};
use crate::interp::*;
use crate::interp_ops::cc;
use crate::model::{range_must_panic, range_to_pair};
use crate::tracked::{self as ledger, Tracked};
use circular_buffer::{Iter, IterMut};

fn addr(t: &Tracked) -> usize {
    t as *const Tracked as usize
}

fn chk(what: &str, got: Option<&Tracked>, exp: Option<&Obs>) -> R<()> {
    match (got, exp) {
        (None, None) => Ok(()),
        (Some(t), Some(o)) if addr(t) == o.addr => {
            let id = t.peek_id().map_err(|e| format!("{what}: {e}"))?;
            if id != o.id {
                return Err(format!("{what} yielded id {id}, expected id {}", o.id));
            }
            Ok(())
        }
        (Some(t), Some(o)) => Err(format!("{what} yielded the element at {:#x}, expected the one at {:#x} (id {})", addr(t), o.addr, o.id)),
        (Some(_), None) => Err(format!("{what} yielded an element after the selection was exhausted")),
        (None, Some(o)) => Err(format!("{what} returned None, expected element id {}", o.id)),
    }
}

fn len_chk(what: &str, len: usize, hint: (usize, Option<usize>), rem: usize) -> R<()> {
    if len != rem {
        return Err(format!("{what}.len() = {len} with {rem} elements not yet produced"));
    }
    if hint != (rem, Some(rem)) {
        return Err(format!("{what}.size_hint() = {hint:?}, expected exactly {rem}"));
    }
    Ok(())
}

/// Drives a shared iterator through the script. `sel` are the expected elements in order.
fn drive_shared(mut it: Iter<'_, Tracked>, sel: &[Obs], script: &[Step]) -> R<()> {
    let (mut lo, mut hi) = (0usize, sel.len());
    for st in script {
        len_chk("iterator", it.len(), it.size_hint(), hi - lo)?;
        // nightly only: ExactSizeIterator::is_empty is a provided method an `unstable` arm may override
        #[cfg(feature = "unstable")]
        if ExactSizeIterator::is_empty(&it) != (hi == lo) || ExactSizeIterator::is_empty(&it.clone().rev()) != (hi == lo) {
            return Err(format!("iterator.is_empty() = {} with {} elements not yet produced", ExactSizeIterator::is_empty(&it), hi - lo));
        }
        match st {
            Step::Next => {
                chk("next()", it.next(), if lo < hi { Some(&sel[lo]) } else { None })?;
                if lo < hi {
                    lo += 1;
                }
            }
            Step::NextBack => {
                chk("next_back()", it.next_back(), if lo < hi { Some(&sel[hi - 1]) } else { None })?;
                if lo < hi {
                    hi -= 1;
                }
            }
            Step::Fork => {
                let mut c = it.clone();
                for k in lo..hi {
                    len_chk("cloned iterator", c.len(), c.size_hint(), hi - k)?;
                    chk("clone.next()", c.next(), Some(&sel[k]))?;
                }
                chk("clone.next() at the end", c.next(), None)?;
                chk("clone.next_back() at the end", c.next_back(), None)?;
            }
            Step::Nth(k) => {
                let k = *k as usize;
                if lo + k < hi {
                    chk("nth()", it.nth(k), Some(&sel[lo + k]))?;
                    lo += k + 1;
                } else {
                    chk("nth() past the end", it.nth(k), None)?;
                    // running out of elements consumes all of them: the iterator is exhausted from now on
                    lo = hi;
                    len_chk("iterator after nth() ran past the end", it.len(), it.size_hint(), 0)?;
                    chk("next() after nth() ran past the end", it.clone().next(), None)?;
                    chk("next_back() after nth() ran past the end", it.clone().next_back(), None)?;
                }
            }
            Step::NthBack(k) => {
                let k = *k as usize;
                if lo + k < hi {
                    chk("nth_back()", it.nth_back(k), Some(&sel[hi - 1 - k]))?;
                    hi -= k + 1;
                } else {
                    chk("nth_back() past the end", it.nth_back(k), None)?;
                    hi = lo;
                    len_chk("iterator after nth_back() ran past the front", it.len(), it.size_hint(), 0)?;
                    chk("next() after nth_back() ran past the front", it.clone().next(), None)?;
                    chk("next_back() after nth_back() ran past the front", it.clone().next_back(), None)?;
                }
            }
            Step::Dbg => {
                let rem: Vec<u32> = sel[lo..hi].iter().map(|o| o.id).collect();
                debug_touches_only("the iterator", &rem, || format!("{:?}", it))?;
            }
            Step::Count => {
                let c = it.clone().count();
                if c != hi - lo {
                    return Err(format!("count() = {c}, expected {}", hi - lo));
                }
            }
            Step::Last => {
                chk("last()", it.clone().last(), if lo < hi { Some(&sel[hi - 1]) } else { None })?;
            }
            Step::Fold => {
                let s = it.clone().fold(0u64, |a, t| a.wrapping_mul(31).wrapping_add(t.val() as u64));
                let w = sel[lo..hi].iter().fold(0u64, |a, o| a.wrapping_mul(31).wrapping_add(o.val as u64));
                if s != w {
                    return Err("fold() visited a different sequence".to_string());
                }
            }
            Step::Skip(k) | Step::StepBy(k) => {
                // adaptors built on nth(): skip(k) / step_by(k + 1) over a copy of the iterator, forwards and backwards
                let k = *k as usize;
                let rem = &sel[lo..hi];
                let skip = matches!(st, Step::Skip(_));
                let want: Vec<&Obs> = if skip { rem.iter().skip(k).collect() } else { rem.iter().step_by(k + 1).collect() };
                let got: Vec<&Tracked> = if skip { it.clone().skip(k).collect() } else { it.clone().step_by(k + 1).collect() };
                if got.len() != want.len() {
                    return Err(format!("{st:?} over the remaining {} elements yields {} elements, expected {}", rem.len(), got.len(), want.len()));
                }
                for (g, w) in got.iter().zip(want.iter()) {
                    chk(if skip { "skip()" } else { "step_by()" }, Some(*g), Some(*w))?;
                }
                let want_r: Vec<&Obs> = if skip { rem.iter().skip(k).rev().collect() } else { rem.iter().step_by(k + 1).rev().collect() };
                let got_r: Vec<&Tracked> = if skip { it.clone().skip(k).rev().collect() } else { it.clone().step_by(k + 1).rev().collect() };
                if got_r.len() != want_r.len() {
                    return Err(format!("{st:?}.rev() over the remaining {} elements yields {} elements, expected {}", rem.len(), got_r.len(), want_r.len()));
                }
                for (g, w) in got_r.iter().zip(want_r.iter()) {
                    chk(if skip { "skip().rev()" } else { "step_by().rev()" }, Some(*g), Some(*w))?;
                }
            }
            Step::PanicSearch(k, back) => {
                let (k, back) = (*k as usize, *back);
                let mut calls = 0usize;
                let r = {
                    let it = &mut it;
                    let calls = &mut calls;
                    std::panic::catch_unwind(std::panic::AssertUnwindSafe(move || {
                        let mut pred = |_: &&Tracked| {
                            if *calls == k {
                                std::panic::resume_unwind(Box::new(crate::interp::PredicatePanic));
                            }
                            *calls += 1;
                            false
                        };
                        if back {
                            it.rfind(&mut pred).is_some()
                        } else {
                            it.find(&mut pred).is_some()
                        }
                    }))
                };
                match r {
                    Ok(found) => {
                        if found || k < hi - lo {
                            return Err(format!("{st:?}: the search returned {found} although the predicate must have panicked or rejected everything"));
                        }
                    }
                    Err(p) => {
                        if p.downcast_ref::<crate::interp::PredicatePanic>().is_none() {
                            std::panic::resume_unwind(p);
                        }
                    }
                }
                // the iterator is still usable: what is left is a contiguous rest, cut at the end that was searched from
                let left = it.len();
                if left > hi - lo {
                    return Err(format!("{st:?}: the iterator grew from {} to {left} elements", hi - lo));
                }
                // how far the search got is part of the trace compared between builds (C18); the state an iterator is left
                // in when user code panics is not documented, so it is not demanded to be independent of the layout (C04)
                if !crate::interp::layout_neutral() {
                    crate::interp::side_dig(((hi - lo - left) as u64) << 1 | back as u64);
                }
                if back {
                    hi = lo + left
                } else {
                    lo = hi - left
                }
                len_chk("iterator after a panic in the predicate", it.len(), it.size_hint(), hi - lo)?;
                let mut c = it.clone();
                for e in &sel[lo..hi] {
                    chk("next() after a panic in the predicate", c.next(), Some(e))?;
                }
            }
            Step::FindMid | Step::RFindMid => {
                if lo < hi {
                    let mid = lo + (hi - lo) / 2;
                    let target = sel[mid].id;
                    let front = matches!(st, Step::FindMid);
                    let got = if front { it.position(|t| t.peek_id().ok() == Some(target)) } else { it.rposition(|t| t.peek_id().ok() == Some(target)) };
                    if got != Some(mid - lo) {
                        return Err(format!("{}(middle element) returned {:?}, expected {:?}", if front { "position" } else { "rposition" }, got, Some(mid - lo)));
                    }
                    if front {
                        lo = mid + 1
                    } else {
                        hi = mid
                    }
                }
            }
            Step::Search => {
                let rem = &sel[lo..hi];
                let n = rem.len();
                // the element in the middle of what is left, looked for from both ends
                let target = rem.get(n / 2).map(|o| o.id);
                let idof = |t: &Tracked| t.peek_id().unwrap_or(0);
                // every searching adaptor is also checked for the state it leaves the iterator in:
                // exactly the elements after (resp. before) the match remain
                let after = |c: Iter<'_, Tracked>, what: &str, exp: &[Obs]| -> R<()> {
                    if c.len() != exp.len() {
                        return Err(format!("after {what} the iterator reports {} remaining elements, expected {}", c.len(), exp.len()));
                    }
                    for (k, t) in c.enumerate() {
                        chk(what, Some(t), exp.get(k))?;
                    }
                    Ok(())
                };
                let want = if n > 0 { Some(n / 2) } else { None };
                for last_too in [false, true] {
                    // search for the middle element and (second round) for the last one
                    let (target, want, mid) = if last_too && n > 0 { (rem.last().map(|o| o.id), Some(n - 1), n - 1) } else { (target, want, n / 2) };
                    let mut c = it.clone();
                    let pos = c.position(|t| Some(idof(t)) == target);
                    if pos != want {
                        return Err(format!("position() gave {:?}, expected {:?}", pos, want));
                    }
                    after(c, "position()", if n > 0 { &rem[mid + 1..] } else { &[] })?;
                    let mut c = it.clone();
                    let rpos = c.rposition(|t| Some(idof(t)) == target);
                    if rpos != want {
                        return Err(format!("rposition() gave {:?}, expected {:?}", rpos, want));
                    }
                    after(c, "rposition()", if n > 0 { &rem[..mid] } else { &[] })?;
                    let mut c = it.clone();
                    chk("find()", c.find(|t| Some(idof(t)) == target), rem.get(mid))?;
                    after(c, "find()", if n > 0 { &rem[mid + 1..] } else { &[] })?;
                    let mut c = it.clone();
                    chk("rfind()", c.rfind(|t| Some(idof(t)) == target), rem.get(mid))?;
                    after(c, "rfind()", if n > 0 { &rem[..mid] } else { &[] })?;
                    let mut c = it.clone();
                    let _ = c.any(|t| Some(idof(t)) == target);
                    after(c, "any()", if n > 0 { &rem[mid + 1..] } else { &[] })?;
                    let mut c = it.clone();
                    let _ = c.all(|t| Some(idof(t)) != target);
                    after(c, "all()", if n > 0 { &rem[mid + 1..] } else { &[] })?;
                    let mut c = it.clone();
                    let _ = c.by_ref().take(mid.min(n)).count();
                    after(c, "by_ref().take(k).count()", &rem[mid.min(n)..])?;
                    let mut c = it.clone();
                    let _ = c.by_ref().skip_while(|t| Some(idof(t)) != target).next();
                    after(c, "skip_while().next()", if n > 0 { &rem[mid + 1..] } else { &[] })?;
                }
                // value-dependent consumers over what is left
                {
                    let want_max = (0..n).max_by_key(|k| rem[*k].val).map(|k| &rem[k]);
                    let want_min = (0..n).min_by_key(|k| rem[*k].val).map(|k| &rem[k]);
                    chk("max()", it.clone().max(), want_max)?;
                    chk("min()", it.clone().min(), want_min)?;
                    chk("rev().min()", it.clone().rev().min(), (0..n).rev().min_by_key(|k| rem[*k].val).map(|k| &rem[k]))?;
                    let sorted = rem.windows(2).all(|w| w[0].val <= w[1].val);
                    if it.clone().is_sorted() != sorted || it.clone().is_sorted_by_key(|t| t.val()) != sorted {
                        return Err(format!("is_sorted() = {} for values {:?}", it.clone().is_sorted(), rem.iter().map(|o| o.val).collect::<Vec<_>>()));
                    }
                    if !it.clone().eq(it.clone()) || it.clone().partial_cmp(it.clone()) != Some(std::cmp::Ordering::Equal) || it.clone().gt(it.clone()) {
                        return Err("the iterator compared with its own clone is not equal".to_string());
                    }
                }
                // ids ascend with creation order only by accident, so use addresses of the expected elements
                let maxid = rem.iter().map(|o| o.id).max();
                let minid = rem.iter().map(|o| o.id).min();
                if it.clone().max_by_key(|t| idof(t)).map(idof) != maxid || it.clone().min_by_key(|t| idof(t)).map(idof) != minid {
                    return Err("max_by_key()/min_by_key() disagree with the remaining elements".into());
                }
                if !it.clone().all(|t| rem.iter().any(|o| o.addr == addr(t))) || it.clone().any(|t| !rem.iter().any(|o| o.id == idof(t))) {
                    return Err("all()/any() saw an element outside the remaining ones".into());
                }
                let addrs: Vec<usize> = rem.iter().map(|o| o.addr).collect();
                if !it.clone().map(addr).eq(addrs.iter().copied()) || !it.clone().rev().map(addr).eq(addrs.iter().rev().copied()) {
                    return Err("Iterator::eq over the remaining elements (forwards or reversed) is false".into());
                }
                if it.clone().skip(1).count() != n.saturating_sub(1) || it.clone().step_by(2).count() != (n + 1) / 2 || it.clone().take(2).count() != n.min(2) {
                    return Err("skip/step_by/take counts are wrong".into());
                }
            }
            Step::Via(f) => {
                let v: Vec<&Tracked> = via_collect(it.clone(), *f);
                if v.len() != hi - lo {
                    return Err(format!("{} visits {} elements, expected {}", VIA_NAMES[*f as usize % 8], v.len(), hi - lo));
                }
                for (k, t) in v.iter().enumerate() {
                    chk(VIA_NAMES[*f as usize % 8], Some(t), Some(&sel[if f % 2 == 1 { hi - 1 - k } else { lo + k }]))?;
                }
            }
            Step::RFold => {
                // internal iteration from the back, two spellings
                let v: Vec<&Tracked> = it.clone().rfold(Vec::new(), |mut v, t| {
                    v.push(t);
                    v
                });
                let mut w: Vec<&Tracked> = Vec::new();
                it.clone().rev().for_each(|t| w.push(t));
                for (what, v) in [("rfold()", v), ("rev().for_each()", w)] {
                    if v.len() != hi - lo {
                        return Err(format!("{what} visits {} elements, expected {}", v.len(), hi - lo));
                    }
                    for (k, t) in v.iter().enumerate() {
                        chk(what, Some(t), Some(&sel[hi - 1 - k]))?;
                    }
                }
            }
            Step::RevLast => {
                chk("rev().last()", it.clone().rev().last(), if lo < hi { Some(&sel[lo]) } else { None })?;
                let v: Vec<&Tracked> = it.clone().fold(Vec::new(), |mut v, t| {
                    v.push(t);
                    v
                });
                for (k, t) in v.iter().enumerate() {
                    chk("fold()", Some(t), sel.get(lo + k))?;
                }
                if v.len() != hi - lo {
                    return Err(format!("fold() visits {} elements, expected {}", v.len(), hi - lo));
                }
            }
            Step::RevCollect => {
                let v: Vec<&Tracked> = it.clone().rev().collect();
                if v.len() != hi - lo {
                    return Err(format!("rev() yields {} elements, expected {}", v.len(), hi - lo));
                }
                for (k, t) in v.iter().enumerate() {
                    chk("rev()", Some(t), Some(&sel[hi - 1 - k]))?;
                }
            }
        }
    }
    len_chk("iterator", it.len(), it.size_hint(), hi - lo)?;
    // drain the rest: then None forever
    while lo < hi {
        chk("next()", it.next(), Some(&sel[lo]))?;
        lo += 1;
    }
    chk("next() after the end", it.next(), None)?;
    chk("next_back() after the end", it.next_back(), None)?;
    chk("next() after the end (again)", it.next(), None)?;
    len_chk("exhausted iterator", it.len(), it.size_hint(), 0)?;
    Ok(())
}

/// Drives a mutable iterator; every yielded element gets a new value written through the
/// reference.  Returns (index into sel, new value) for every write.
fn drive_mut(mut it: IterMut<'_, Tracked>, sel: &[Obs], script: &[Step], mut newv: u32) -> R<Vec<(usize, u32)>> {
    let (mut lo, mut hi) = (0usize, sel.len());
    let mut writes = Vec::new();
    let mut seen: Vec<usize> = Vec::new();
    let mut wr = |t: &mut Tracked, k: usize, writes: &mut Vec<(usize, u32)>, seen: &mut Vec<usize>| -> R<()> {
        let a = t as *mut Tracked as usize;
        if seen.contains(&a) {
            return Err(format!("the mutable iterator yielded the element at {a:#x} twice"));
        }
        seen.push(a);
        t.set_val(newv);
        writes.push((k, newv));
        newv += 1;
        Ok(())
    };
    for st in script {
        len_chk("iterator", it.len(), it.size_hint(), hi - lo)?;
        #[cfg(feature = "unstable")]
        if ExactSizeIterator::is_empty(&it) != (hi == lo) {
            return Err(format!("mutable iterator.is_empty() = {} with {} elements not yet produced", ExactSizeIterator::is_empty(&it), hi - lo));
        }
        match st {
            Step::Next => {
                let g = it.next();
                chk("next()", g.as_deref(), if lo < hi { Some(&sel[lo]) } else { None })?;
                if let Some(t) = g {
                    wr(t, lo, &mut writes, &mut seen)?;
                    lo += 1;
                }
            }
            Step::NextBack => {
                let g = it.next_back();
                chk("next_back()", g.as_deref(), if lo < hi { Some(&sel[hi - 1]) } else { None })?;
                if let Some(t) = g {
                    wr(t, hi - 1, &mut writes, &mut seen)?;
                    hi -= 1;
                }
            }
            Step::Nth(k) => {
                let k = *k as usize;
                let g = it.nth(k);
                if lo + k < hi {
                    chk("nth()", g.as_deref(), Some(&sel[lo + k]))?;
                    wr(g.unwrap(), lo + k, &mut writes, &mut seen)?;
                    lo += k + 1;
                } else {
                    chk("nth() past the end", g.as_deref(), None)?;
                    lo = hi;
                    len_chk("mutable iterator after nth() ran past the end", it.len(), it.size_hint(), 0)?;
                }
            }
            Step::NthBack(k) => {
                let k = *k as usize;
                let g = it.nth_back(k);
                if lo + k < hi {
                    chk("nth_back()", g.as_deref(), Some(&sel[hi - 1 - k]))?;
                    wr(g.unwrap(), hi - 1 - k, &mut writes, &mut seen)?;
                    hi -= k + 1;
                } else {
                    chk("nth_back() past the end", g.as_deref(), None)?;
                    hi = lo;
                    len_chk("mutable iterator after nth_back() ran past the front", it.len(), it.size_hint(), 0)?;
                }
            }
            Step::Dbg => {
                let rem: Vec<u32> = sel[lo..hi].iter().map(|o| o.id).collect();
                debug_touches_only("the mutable iterator", &rem, || format!("{:?}", it))?;
            }
            Step::Count => {
                let c = it.count();
                if c != hi - lo {
                    return Err(format!("count() = {c}, expected {}", hi - lo));
                }
                return Ok(writes);
            }
            Step::Last => {
                let g = it.last();
                chk("last()", g.as_deref(), if lo < hi { Some(&sel[hi - 1]) } else { None })?;
                return Ok(writes);
            }
            Step::RevCollect => {
                let v: Vec<&mut Tracked> = it.rev().collect();
                if v.len() != hi - lo {
                    return Err(format!("rev() yields {} elements, expected {}", v.len(), hi - lo));
                }
                for (k, t) in v.into_iter().enumerate() {
                    chk("rev()", Some(&*t), Some(&sel[hi - 1 - k]))?;
                    wr(t, hi - 1 - k, &mut writes, &mut seen)?;
                }
                return Ok(writes);
            }
            Step::Fold | Step::RFold | Step::RevLast | Step::Via(_) => {
                // internal iteration (consuming): every visited element is written through
                let v: Vec<&mut Tracked> = match st {
                    Step::Via(f) => via_collect(it, *f),
                    Step::Fold => it.fold(Vec::new(), |mut v, t| {
                        v.push(t);
                        v
                    }),
                    Step::RFold => it.rfold(Vec::new(), |mut v, t| {
                        v.push(t);
                        v
                    }),
                    _ => {
                        let mut w = Vec::new();
                        it.rev().for_each(|t| w.push(t));
                        w
                    }
                };
                if v.len() != hi - lo {
                    return Err(format!("{st:?} visits {} elements, expected {}", v.len(), hi - lo));
                }
                let forward = matches!(st, Step::Fold) || matches!(st, Step::Via(f) if f % 2 == 0);
                for (k, t) in v.into_iter().enumerate() {
                    let pos = if forward { lo + k } else { hi - 1 - k };
                    chk("internal iteration", Some(&*t), Some(&sel[pos]))?;
                    wr(t, pos, &mut writes, &mut seen)?;
                }
                return Ok(writes);
            }
            Step::FindMid | Step::RFindMid => {
                if lo < hi {
                    let mid = lo + (hi - lo) / 2;
                    let target = sel[mid].addr;
                    let front = matches!(st, Step::FindMid);
                    let got = if front { it.position(|t| t as *mut Tracked as usize == target) } else { it.rposition(|t| t as *mut Tracked as usize == target) };
                    if got != Some(mid - lo) {
                        return Err(format!("{}(middle element) on the mutable iterator returned {:?}, expected {:?}", if front { "position" } else { "rposition" }, got, Some(mid - lo)));
                    }
                    if front {
                        lo = mid + 1
                    } else {
                        hi = mid
                    }
                }
            }
            Step::Skip(k) | Step::StepBy(k) => {
                // consumes the mutable iterator through the adaptor; every element it yields is written to
                let k = *k as usize;
                let skip = matches!(st, Step::Skip(_));
                let idxs: Vec<usize> = if skip { (lo..hi).skip(k).collect() } else { (lo..hi).step_by(k + 1).collect() };
                let got: Vec<&mut Tracked> = if skip { it.skip(k).collect() } else { it.step_by(k + 1).collect() };
                if got.len() != idxs.len() {
                    return Err(format!("{st:?} over the remaining {} elements yields {} elements, expected {}", hi - lo, got.len(), idxs.len()));
                }
                for (t, i) in got.into_iter().zip(idxs) {
                    chk(if skip { "skip()" } else { "step_by()" }, Some(&*t), Some(&sel[i]))?;
                    wr(t, i, &mut writes, &mut seen)?;
                }
                return Ok(writes);
            }
            Step::Search => {
                // consumes the mutable iterator through max() (last greatest) or min() (first least) and writes through the result
                let mx = (hi - lo) % 2 == 0;
                let want = if mx { (lo..hi).max_by_key(|k| sel[*k].val) } else { (lo..hi).min_by_key(|k| sel[*k].val) };
                let g = if mx { it.max() } else { it.min() };
                chk(if mx { "max()" } else { "min()" }, g.as_deref(), want.map(|k| &sel[k]))?;
                if let (Some(t), Some(k)) = (g, want) {
                    wr(t, k, &mut writes, &mut seen)?;
                }
                return Ok(writes);
            }
            Step::Fork | Step::PanicSearch(..) => {}
        }
    }
    len_chk("iterator", it.len(), it.size_hint(), hi - lo)?;
    while lo < hi {
        let g = it.next();
        chk("next()", g.as_deref(), Some(&sel[lo]))?;
        wr(g.unwrap(), lo, &mut writes, &mut seen)?;
        lo += 1;
    }
    chk("next() after the end", it.next().as_deref(), None)?;
    chk("next_back() after the end", it.next_back().as_deref(), None)?;
    len_chk("exhausted iterator", it.len(), it.size_hint(), 0)?;
    Ok(writes)
}

impl St {
    pub(crate) fn iter_script(&mut self, kind: IterKind, script: &[Step]) -> R<Flow> {
        let len = self.model.len();
        let obs = self.last_obs.clone();
        let spec = match kind {
            IterKind::Range(r) | IterKind::RangeMut(r) => Some(r),
            _ => None,
        };
        let (lo, hi, must_panic, ra) = match spec {
            Some(r) => {
                let ra = r.resolve(len);
                if range_must_panic(ra.start, ra.end, len) {
                    (0, 0, true, Some(ra))
                } else {
                    let (s, e) = range_to_pair(ra.start, ra.end, len);
                    (s as usize, e as usize, false, Some(ra))
                }
            }
            None => match kind {
                IterKind::DefaultIter | IterKind::DefaultIterMut => (0, 0, false, None),
                _ => (0, len, false, None),
            },
        };
        if script.iter().any(|s| matches!(s, Step::Next | Step::Nth(_))) && script.iter().any(|s| matches!(s, Step::NextBack | Step::NthBack(_))) {
            self.flags |= fl::MIXED_DIR;
        }
        if !must_panic && hi > lo && self.n > 0 {
            if let (Some(a), Some(b)) = (self.slot_of(obs[lo].addr), self.slot_of(obs[hi - 1].addr)) {
                if b < a {
                    self.flags |= fl::SEL_WRAPS;
                }
            }
        }
        let sel: Vec<Obs> = obs[lo..hi].to_vec();
        let script: Vec<Step> = script.to_vec();
        let newv = self.next_val;
        self.next_val += sel.len() as u32 + 2;
        let r = {
            let sel = &sel;
            let script = &script;
            self.call(move |b: &mut dyn Deq<Tracked>| -> R<Vec<(usize, u32)>> {
                match kind {
                    IterKind::Iter => drive_shared(b.iter(), sel, script).map(|_| vec![]),
                    IterKind::RefIntoIter => drive_shared(b.ref_into_iter(), sel, script).map(|_| vec![]),
                    IterKind::Range(_) => drive_shared(b.range(ra.unwrap()), sel, script).map(|_| vec![]),
                    IterKind::DefaultIter => drive_shared(Iter::default(), sel, script).map(|_| vec![]),
                    IterKind::IterMut => drive_mut(b.iter_mut(), sel, script, newv),
                    IterKind::RangeMut(_) => drive_mut(b.range_mut(ra.unwrap()), sel, script, newv),
                    IterKind::DefaultIterMut => drive_mut(IterMut::default(), sel, script, newv),
                }
            })
        };
        match r {
            Called::Panic(m) => {
                if must_panic {
                    self.flags |= fl::DOC_PANIC;
                    self.dig(0xDEAD);
                    Ok(Flow::Done)
                } else {
                    Err(format!("unexpected panic: {m}"))
                }
            }
            Called::Injected => Ok(Flow::Injected),
            Called::Ok(res) => {
                if must_panic {
                    return Err(format!("{} on a buffer of length {len} did not panic", render_op(&Op::IterScript(kind, vec![]))));
                }
                let writes = res?;
                for (k, v) in writes {
                    self.model[lo + k].1 = v;
                }
                if hi > lo {
                    self.flags |= fl::READ_OR_MOVED;
                }
                Ok(Flow::Done)
            }
        }
    }

    pub(crate) fn into_iter_script(&mut self, script: &[Step]) -> R<Flow> {
        let before = self.model.clone();
        if script.iter().any(|s| matches!(s, Step::Next | Step::Nth(_))) && script.iter().any(|s| matches!(s, Step::NextBack | Step::NthBack(_))) {
            self.flags |= fl::MIXED_DIR;
        }
        if before.len() >= 2 && self.n > 0 {
            if let (Some(a), Some(b)) = (self.slot_of(self.last_obs[0].addr), self.slot_of(self.last_obs[before.len() - 1].addr)) {
                if b < a {
                    self.flags |= fl::SEL_WRAPS;
                }
            }
        }
        let buf = self.buf.take().unwrap();
        let mut got: Vec<Tracked> = Vec::new();
        let mut clones: Vec<Tracked> = Vec::new();
        let script: Vec<Step> = script.to_vec();
        let r = {
            let got = &mut got;
            let clones = &mut clones;
            let before = &before;
            self.call_free(move || -> R<()> {
                let mut it: Box<dyn IntoIterDyn<Tracked>> = buf.into_iter_box();
                let (mut lo, mut hi) = (0usize, before.len());
                let idchk = |what: &str, g: &Option<Tracked>, e: Option<u32>| -> R<()> {
                    let gid = g.as_ref().map(|t| t.raw_id());
                    if gid != e {
                        return Err(format!("{what} yielded element id {:?}, expected {:?}", gid, e));
                    }
                    Ok(())
                };
                for st in script.iter() {
                    len_chk("into_iter", it.len(), it.size_hint(), hi - lo)?;
                    match st {
                        Step::Next => {
                            let g = it.next();
                            let r = idchk("next()", &g, if lo < hi { Some(before[lo].0) } else { None });
                            if let Some(t) = g {
                                got.push(t);
                            }
                            r?;
                            if lo < hi {
                                lo += 1;
                            }
                        }
                        Step::NextBack => {
                            let g = it.next_back();
                            let r = idchk("next_back()", &g, if lo < hi { Some(before[hi - 1].0) } else { None });
                            if let Some(t) = g {
                                got.push(t);
                            }
                            r?;
                            if lo < hi {
                                hi -= 1;
                            }
                        }
                        Step::Fork => {
                            let mut c = it.clone_box();
                            let mut k = lo;
                            while let Some(t) = c.next() {
                                let ok = k < hi
                                    && ledger::slot(t.raw_id()).map(|s| s.origin == before[k].0 && s.val == before[k].1).unwrap_or(false);
                                clones.push(t);
                                if !ok {
                                    return Err(format!("the cloned owning iterator yielded a wrong element at offset {}", k - lo));
                                }
                                k += 1;
                            }
                            if k != hi {
                                return Err(format!("the cloned owning iterator yielded {} elements, expected {}", k - lo, hi - lo));
                            }
                        }
                        Step::Nth(k) => {
                            let k = *k as usize;
                            let g = it.nth(k);
                            if lo + k < hi {
                                let r = idchk("nth()", &g, Some(before[lo + k].0));
                                if let Some(t) = g {
                                    got.push(t);
                                }
                                r?;
                                lo += k + 1;
                            } else {
                                let r = idchk("nth() past the end", &g, None);
                                if let Some(t) = g {
                                    got.push(t);
                                }
                                r?;
                                lo = hi;
                                len_chk("into_iter after nth() ran past the end", it.len(), it.size_hint(), 0)?;
                            }
                        }
                        Step::NthBack(k) => {
                            let k = *k as usize;
                            let g = it.nth_back(k);
                            if lo + k < hi {
                                let r = idchk("nth_back()", &g, Some(before[hi - 1 - k].0));
                                if let Some(t) = g {
                                    got.push(t);
                                }
                                r?;
                                hi -= k + 1;
                            } else {
                                let r = idchk("nth_back() past the end", &g, None);
                                if let Some(t) = g {
                                    got.push(t);
                                }
                                r?;
                                hi = lo;
                                len_chk("into_iter after nth_back() ran past the front", it.len(), it.size_hint(), 0)?;
                            }
                        }
                        Step::Dbg => {
                            let rem: Vec<u32> = before[lo..hi].iter().map(|m| m.0).collect();
                            debug_touches_only("the owning iterator", &rem, || it.debug_string())?;
                            let full = untracked(|| it.debug_string()).len();
                            for (budget, panic) in [(0, false), (full / 2, false), (full / 2, true)] {
                                let _ = untracked(|| it.debug_failing(budget, panic));
                                len_chk("into_iter after an interrupted {:?}", it.len(), it.size_hint(), hi - lo)?;
                            }
                        }
                        Step::Search | Step::PanicSearch(..) => {}
                        Step::FindMid | Step::RFindMid => {
                            if lo < hi {
                                let mid = lo + (hi - lo) / 2;
                                let target = before[mid].0;
                                let front = matches!(st, Step::FindMid);
                                let mut f = |t: &Tracked| t.raw_id() == target;
                                let g = if front { it.position_dyn(&mut f) } else { it.rposition_dyn(&mut f) };
                                if g != Some(mid - lo) {
                                    return Err(format!("{}(middle element) on the owning iterator returned {:?}, expected {:?}", if front { "position" } else { "rposition" }, g, Some(mid - lo)));
                                }
                                if front {
                                    lo = mid + 1
                                } else {
                                    hi = mid
                                }
                            }
                        }
                        Step::Count | Step::Fold | Step::Last | Step::RevCollect | Step::Skip(_) | Step::StepBy(_) | Step::RFold | Step::RevLast | Step::Via(_) => {
                            let all: Vec<u32> = before[lo..hi].iter().map(|m| m.0).collect();
                            let (v, want): (Vec<Tracked>, Vec<u32>) = match st {
                                Step::Fold => (it.fold_collect(), all),
                                Step::RFold => (it.rfold_collect(), all.into_iter().rev().collect()),
                                Step::Via(f) => (it.via_collect(*f), if f % 2 == 1 { all.into_iter().rev().collect() } else { all }),
                                Step::RevLast => (it.rev_last().into_iter().collect(), all.into_iter().take(1).collect()),
                                Step::Last => (it.last_rest().into_iter().collect(), all.into_iter().rev().take(1).collect()),
                                Step::Skip(k) => (it.skip_collect(*k as usize), all.into_iter().skip(*k as usize).collect()),
                                Step::StepBy(k) => (it.step_by_collect(*k as usize), all.into_iter().step_by(*k as usize + 1).collect()),
                                Step::Count => {
                                    let c = it.count_rest();
                                    if c != all.len() {
                                        return Err(format!("count() of the owning iterator = {c}, expected {}", all.len()));
                                    }
                                    (Vec::new(), Vec::new())
                                }
                                _ => (it.collect_vec(), all),
                            };
                            let ids: Vec<u32> = v.iter().map(|t| t.raw_id()).collect();
                            got.extend(v);
                            if ids != want {
                                return Err(format!("collect() of the rest gave ids {:?}, expected {:?}", ids, want));
                            }
                            return Ok(());
                        }
                    }
                }
                len_chk("into_iter", it.len(), it.size_hint(), hi - lo)?;
                drop(it);
                Ok(())
            })
        };
        let cl_ids: Vec<u32> = clones.iter().map(|t| t.raw_id()).collect();
        drop(clones);
        self.dead_ids.extend(cl_ids);
        let mut herr = None;
        for t in got {
            if let Err(e) = self.hold(t) {
                herr = Some(e);
            }
        }
        let (n, c) = (self.n, self.ctor);
        self.buf = Some(crate::deq::make_buf::<Tracked>(n, c));
        self.model.clear();
        if let Some(e) = herr {
            return Err(e);
        }
        let r = cc!(r);
        r?;
        for m in &before {
            if !self.held.iter().any(|h| h.raw_id() == m.0) {
                self.dead_ids.push(m.0);
            }
        }
        self.flags |= fl::READ_OR_MOVED;
        Ok(Flow::Done)
    }
}
