//! Capacity-erased access to `CircularBuffer<N, T>`: the interpreter is compiled once and talks
//! to the crate through this object-safe trait; the thin generic impl below is what gets
//! monomorphised per capacity.  Every method is a direct call of the public API.

use circular_buffer::{CircularBuffer, Drain, IntoIter, Iter, IterMut};
use std::any::Any;
use std::cmp::Ordering;
use std::collections::hash_map::DefaultHasher;
use std::fmt::Debug;
use std::hash::{Hash, Hasher};
use std::ops::Bound;

/// A range argument; `native` selects the std range type (`a..b`, `a..=b`, `a..`, `..b`, `..=b`,
/// `..`) where one exists for the bound pair, otherwise (and when `native` is false) the
/// `(Bound, Bound)` tuple is passed.
#[derive(Debug, Clone, Copy, PartialEq, Eq, Hash)]
pub struct RangeArg {
    pub start: Bound<usize>,
    pub end: Bound<usize>,
    pub native: bool,
}

/// A RangeBounds value that is not idempotent: what `start_bound` / `end_bound` answer depends on how often they
/// have been asked (safe code can do this; a container must not become unsound or lose elements over it).
pub struct Shifty {
    pub start: Bound<usize>,
    pub end: Bound<usize>,
    pub mode: u8,
    pub calls: std::cell::Cell<u32>,
}
impl Shifty {
    fn real(&self) -> bool {
        let c = self.calls.get();
        self.calls.set(c + 1);
        match self.mode % 3 {
            0 => c >= 2,
            1 => c < 2,
            _ => c % 2 == 1,
        }
    }
}
impl std::ops::RangeBounds<usize> for Shifty {
    fn start_bound(&self) -> Bound<&usize> {
        if self.real() {
            match &self.start {
                Bound::Included(a) => Bound::Included(a),
                Bound::Excluded(a) => Bound::Excluded(a),
                Bound::Unbounded => Bound::Unbounded,
            }
        } else {
            Bound::Unbounded
        }
    }
    fn end_bound(&self) -> Bound<&usize> {
        if self.real() {
            match &self.end {
                Bound::Included(a) => Bound::Included(a),
                Bound::Excluded(a) => Bound::Excluded(a),
                Bound::Unbounded => Bound::Unbounded,
            }
        } else {
            Bound::Unbounded
        }
    }
}

macro_rules! with_range {
    ($r:expr, |$x:ident| $body:expr) => {{
        let r: RangeArg = $r;
        match (r.native, r.start, r.end) {
            (true, Bound::Included(a), Bound::Excluded(b)) => {
                let $x = a..b;
                $body
            }
            (true, Bound::Included(a), Bound::Included(b)) => {
                let $x = a..=b;
                $body
            }
            (true, Bound::Included(a), Bound::Unbounded) => {
                let $x = a..;
                $body
            }
            (true, Bound::Unbounded, Bound::Excluded(b)) => {
                let $x = ..b;
                $body
            }
            (true, Bound::Unbounded, Bound::Included(b)) => {
                let $x = ..=b;
                $body
            }
            (true, Bound::Unbounded, Bound::Unbounded) => {
                let $x = ..;
                $body
            }
            (_, a, b) => {
                let $x = (a, b);
                $body
            }
        }
    }};
}

pub trait DrainDyn<T> {
    fn next(&mut self) -> Option<T>;
    fn next_back(&mut self) -> Option<T>;
    fn len(&self) -> usize;
    fn size_hint(&self) -> (usize, Option<usize>);
    fn debug_string(&self) -> String;
    /// `{:?}` into a sink that accepts `budget` bytes and then returns an error (or panics); Some(result is Err) / None if it panicked
    fn debug_failing(&self, budget: usize, panic: bool) -> Option<bool>;
    fn forget(self: Box<Self>);
    fn nth(&mut self, k: usize) -> Option<T>;
    fn nth_back(&mut self, k: usize) -> Option<T>;
    fn count_rest(self: Box<Self>) -> usize;
    fn last_rest(self: Box<Self>) -> Option<T>;
    fn collect_rest(self: Box<Self>) -> Vec<T>;
    fn rev_collect_rest(self: Box<Self>) -> Vec<T>;
    /// `skip(k).collect()` resp. `step_by(k + 1).collect()`
    fn skip_collect(self: Box<Self>, k: usize) -> Vec<T>;
    fn step_by_collect(self: Box<Self>, k: usize) -> Vec<T>;
    /// internal iteration: `fold` from the front / `rfold` from the back, collecting in visit order
    fn fold_collect(self: Box<Self>) -> Vec<T>;
    fn via_collect(self: Box<Self>, flavor: u8) -> Vec<T>;
    fn rfold_collect(self: Box<Self>) -> Vec<T>;
    fn rev_last(self: Box<Self>) -> Option<T>;
    /// `position` / `rposition` with a predicate, on the drain itself (elements passed over are destroyed)
    fn position_dyn(&mut self, f: &mut dyn FnMut(&T) -> bool) -> Option<usize>;
    fn rposition_dyn(&mut self, f: &mut dyn FnMut(&T) -> bool) -> Option<usize>;
}

impl<const N: usize, T: Debug> DrainDyn<T> for Drain<'_, N, T> {
    fn nth(&mut self, k: usize) -> Option<T> {
        Iterator::nth(self, k)
    }
    fn nth_back(&mut self, k: usize) -> Option<T> {
        DoubleEndedIterator::nth_back(self, k)
    }
    fn count_rest(self: Box<Self>) -> usize {
        (*self).count()
    }
    fn last_rest(self: Box<Self>) -> Option<T> {
        (*self).last()
    }
    fn collect_rest(self: Box<Self>) -> Vec<T> {
        (*self).collect()
    }
    fn rev_collect_rest(self: Box<Self>) -> Vec<T> {
        (*self).rev().collect()
    }
    fn skip_collect(self: Box<Self>, k: usize) -> Vec<T> {
        (*self).skip(k).collect()
    }
    fn step_by_collect(self: Box<Self>, k: usize) -> Vec<T> {
        (*self).step_by(k + 1).collect()
    }
    fn via_collect(self: Box<Self>, flavor: u8) -> Vec<T> {
        crate::case::via_collect(*self, flavor)
    }
    fn fold_collect(self: Box<Self>) -> Vec<T> {
        (*self).fold(Vec::new(), |mut v, x| {
            // the closure is user code: it counts as a fault point
            v.push(x);
            crate::tracked::user_event(crate::tracked::FaultKind::Make);
            v
        })
    }
    fn rfold_collect(self: Box<Self>) -> Vec<T> {
        (*self).rfold(Vec::new(), |mut v, x| {
            v.push(x);
            crate::tracked::user_event(crate::tracked::FaultKind::Make);
            v
        })
    }
    fn rev_last(self: Box<Self>) -> Option<T> {
        (*self).rev().last()
    }
    fn position_dyn(&mut self, f: &mut dyn FnMut(&T) -> bool) -> Option<usize> {
        Iterator::position(self, |x| {
            let r = f(&x);
            crate::tracked::user_event(crate::tracked::FaultKind::Make);
            r
        })
    }
    fn rposition_dyn(&mut self, f: &mut dyn FnMut(&T) -> bool) -> Option<usize> {
        Iterator::rposition(self, |x| {
            let r = f(&x);
            crate::tracked::user_event(crate::tracked::FaultKind::Make);
            r
        })
    }
    fn next(&mut self) -> Option<T> {
        Iterator::next(self)
    }
    fn next_back(&mut self) -> Option<T> {
        DoubleEndedIterator::next_back(self)
    }
    fn len(&self) -> usize {
        ExactSizeIterator::len(self)
    }
    fn size_hint(&self) -> (usize, Option<usize>) {
        Iterator::size_hint(self)
    }
    fn debug_failing(&self, budget: usize, panic: bool) -> Option<bool> {
        debug_into_failing_sink(self, budget, panic)
    }
    fn debug_string(&self) -> String {
        format!("{:?}", self)
    }
    fn forget(self: Box<Self>) {
        std::mem::forget(*self)
    }
}

pub trait IntoIterDyn<T> {
    fn next(&mut self) -> Option<T>;
    fn next_back(&mut self) -> Option<T>;
    fn len(&self) -> usize;
    fn size_hint(&self) -> (usize, Option<usize>);
    fn debug_string(&self) -> String;
    /// `{:?}` into a sink that accepts `budget` bytes and then returns an error (or panics); Some(result is Err) / None if it panicked
    fn debug_failing(&self, budget: usize, panic: bool) -> Option<bool>;
    fn clone_box(&self) -> Box<dyn IntoIterDyn<T>>;
    fn collect_vec(self: Box<Self>) -> Vec<T>;
    fn nth(&mut self, k: usize) -> Option<T>;
    fn nth_back(&mut self, k: usize) -> Option<T>;
    fn fold_collect(self: Box<Self>) -> Vec<T>;
    fn via_collect(self: Box<Self>, flavor: u8) -> Vec<T>;
    fn rfold_collect(self: Box<Self>) -> Vec<T>;
    /// the real adaptors (they destroy what they pass over inside the iterator machinery)
    fn count_rest(self: Box<Self>) -> usize;
    fn last_rest(self: Box<Self>) -> Option<T>;
    fn rev_last(self: Box<Self>) -> Option<T>;
    fn skip_collect(self: Box<Self>, k: usize) -> Vec<T>;
    fn step_by_collect(self: Box<Self>, k: usize) -> Vec<T>;
    fn position_dyn(&mut self, f: &mut dyn FnMut(&T) -> bool) -> Option<usize>;
    fn rposition_dyn(&mut self, f: &mut dyn FnMut(&T) -> bool) -> Option<usize>;
}

impl<const N: usize, T: Debug + Clone + 'static> IntoIterDyn<T> for IntoIter<N, T> {
    fn next(&mut self) -> Option<T> {
        Iterator::next(self)
    }
    fn next_back(&mut self) -> Option<T> {
        DoubleEndedIterator::next_back(self)
    }
    fn len(&self) -> usize {
        ExactSizeIterator::len(self)
    }
    fn size_hint(&self) -> (usize, Option<usize>) {
        Iterator::size_hint(self)
    }
    fn debug_failing(&self, budget: usize, panic: bool) -> Option<bool> {
        debug_into_failing_sink(self, budget, panic)
    }
    fn debug_string(&self) -> String {
        format!("{:?}", self)
    }
    fn clone_box(&self) -> Box<dyn IntoIterDyn<T>> {
        Box::new(self.clone())
    }
    fn collect_vec(self: Box<Self>) -> Vec<T> {
        // bounded: a broken length bookkeeping must not turn into an endless collection
        (*self).take(N + 2).collect()
    }
    fn nth(&mut self, k: usize) -> Option<T> {
        Iterator::nth(self, k)
    }
    fn nth_back(&mut self, k: usize) -> Option<T> {
        DoubleEndedIterator::nth_back(self, k)
    }
    fn via_collect(self: Box<Self>, flavor: u8) -> Vec<T> {
        crate::case::via_collect(*self, flavor)
    }
    fn fold_collect(self: Box<Self>) -> Vec<T> {
        // directly on the iterator, so that a `fold` override is what runs
        (*self).fold(Vec::new(), |mut v, x| {
            // the closure is user code: it counts as a fault point
            v.push(x);
            crate::tracked::user_event(crate::tracked::FaultKind::Make);
            v
        })
    }
    fn rfold_collect(self: Box<Self>) -> Vec<T> {
        (*self).rfold(Vec::new(), |mut v, x| {
            v.push(x);
            crate::tracked::user_event(crate::tracked::FaultKind::Make);
            v
        })
    }
    fn count_rest(self: Box<Self>) -> usize {
        (*self).count()
    }
    fn last_rest(self: Box<Self>) -> Option<T> {
        (*self).last()
    }
    fn rev_last(self: Box<Self>) -> Option<T> {
        (*self).rev().last()
    }
    fn skip_collect(self: Box<Self>, k: usize) -> Vec<T> {
        (*self).skip(k).take(N + 2).collect()
    }
    fn step_by_collect(self: Box<Self>, k: usize) -> Vec<T> {
        (*self).step_by(k + 1).take(N + 2).collect()
    }
    fn position_dyn(&mut self, f: &mut dyn FnMut(&T) -> bool) -> Option<usize> {
        Iterator::position(self, |x| {
            let r = f(&x);
            crate::tracked::user_event(crate::tracked::FaultKind::Make);
            r
        })
    }
    fn rposition_dyn(&mut self, f: &mut dyn FnMut(&T) -> bool) -> Option<usize> {
        Iterator::rposition(self, |x| {
            let r = f(&x);
            crate::tracked::user_event(crate::tracked::FaultKind::Make);
            r
        })
    }
}

pub trait Deq<T>: Any {
    fn as_any(&self) -> &dyn Any;
    fn cap(&self) -> usize;
    fn len(&self) -> usize;
    fn is_empty(&self) -> bool;
    fn is_full(&self) -> bool;
    fn capacity(&self) -> usize;
    fn struct_addr(&self) -> usize;
    fn struct_size(&self) -> usize;
    fn raw_bytes(&mut self) -> *mut u8;

    fn get(&self, i: usize) -> Option<&T>;
    fn get_mut(&mut self, i: usize) -> Option<&mut T>;
    fn nth_front(&self, i: usize) -> Option<&T>;
    fn nth_front_mut(&mut self, i: usize) -> Option<&mut T>;
    fn nth_back(&self, i: usize) -> Option<&T>;
    fn nth_back_mut(&mut self, i: usize) -> Option<&mut T>;
    fn front(&self) -> Option<&T>;
    fn front_mut(&mut self) -> Option<&mut T>;
    fn back(&self) -> Option<&T>;
    fn back_mut(&mut self) -> Option<&mut T>;
    fn index(&self, i: usize) -> &T;
    fn index_mut(&mut self, i: usize) -> &mut T;
    fn as_slices(&self) -> (&[T], &[T]);
    fn as_mut_slices(&mut self) -> (&mut [T], &mut [T]);
    fn make_contiguous(&mut self) -> &mut [T];
    fn iter(&self) -> Iter<'_, T>;
    fn ref_into_iter(&self) -> Iter<'_, T>;
    fn iter_mut(&mut self) -> IterMut<'_, T>;
    fn range(&self, r: RangeArg) -> Iter<'_, T>;
    fn range_mut(&mut self, r: RangeArg) -> IterMut<'_, T>;
    fn drain<'a>(&'a mut self, r: RangeArg) -> Box<dyn DrainDyn<T> + 'a>;
    /// drain (0) / range_mut (1) / range (2) with bounds that change between calls; returns what the view yielded
    /// (by value for the drain, as addresses otherwise)
    fn shifty(&mut self, r: RangeArg, mode: u8, which: u8) -> (Vec<T>, Vec<usize>);

    fn push_back(&mut self, x: T) -> Option<T>;
    fn push_front(&mut self, x: T) -> Option<T>;
    fn try_push_back(&mut self, x: T) -> Result<(), T>;
    fn try_push_front(&mut self, x: T) -> Result<(), T>;
    fn pop_back(&mut self) -> Option<T>;
    fn pop_front(&mut self) -> Option<T>;
    fn remove(&mut self, i: usize) -> Option<T>;
    fn swap(&mut self, i: usize, j: usize);
    fn swap_remove_back(&mut self, i: usize) -> Option<T>;
    fn swap_remove_front(&mut self, i: usize) -> Option<T>;
    fn truncate_back(&mut self, n: usize);
    fn truncate_front(&mut self, n: usize);
    fn clear(&mut self);
    fn fill(&mut self, v: T);
    fn fill_with(&mut self, f: &mut dyn FnMut() -> T);
    fn fill_spare(&mut self, v: T);
    fn fill_spare_with(&mut self, f: &mut dyn FnMut() -> T);
    fn extend_dyn(&mut self, it: &mut dyn Iterator<Item = T>);
    /// through std's `impl Extend<(A, B)> for (ExtendA, ExtendB)`
    fn extend_pairs_dyn(&mut self, it: &mut dyn Iterator<Item = T>);
    fn extend_from_slice(&mut self, s: &[T]);
    fn to_vec(&self) -> Vec<T>;
    fn clone_box(&self) -> Box<dyn Deq<T>>;
    /// `other` must have the same capacity.
    fn clone_from_dyn(&mut self, other: &dyn Deq<T>);
    fn eq_dyn(&self, other: &dyn Deq<T>) -> bool;
    fn eq_slice(&self, other: &[T]) -> bool;
    /// `==` against every partner type the crate implements it for: [U], &[U], &mut [U] and (for up to 8 elements)
    /// [U; M], &[U; M], &mut [U; M]; the vector is handed back so that the caller destroys it
    fn eq_partners(&self, other: Vec<T>) -> (Vec<(&'static str, bool)>, Vec<T>);
    fn partial_cmp_dyn(&self, other: &dyn Deq<T>) -> Option<Ordering>;
    /// `==` / `partial_cmp` against a buffer of ANY capacity in 0..=8
    fn eq_any(&self, other: &dyn Deq<T>) -> bool;
    fn partial_cmp_any(&self, other: &dyn Deq<T>) -> Option<Ordering>;
    fn cmp_dyn(&self, other: &dyn Deq<T>) -> Ordering;
    fn hash_u64(&self) -> u64;
    fn debug_string(&self, alt: bool) -> String;
    fn into_iter_box(self: Box<Self>) -> Box<dyn IntoIterDyn<T>>;
    /// Moves the buffer to a new heap location (a plain Rust move of the value).
    fn move_box(self: Box<Self>) -> Box<dyn Deq<T>>;
}

impl<const N: usize, T> Deq<T> for CircularBuffer<N, T>
where
    T: Clone + PartialEq + Ord + Hash + Debug + 'static,
{
    fn as_any(&self) -> &dyn Any {
        self
    }
    fn cap(&self) -> usize {
        N
    }
    fn len(&self) -> usize {
        CircularBuffer::len(self)
    }
    fn is_empty(&self) -> bool {
        CircularBuffer::is_empty(self)
    }
    fn is_full(&self) -> bool {
        CircularBuffer::is_full(self)
    }
    fn capacity(&self) -> usize {
        CircularBuffer::capacity(self)
    }
    fn struct_addr(&self) -> usize {
        self as *const Self as usize
    }
    fn struct_size(&self) -> usize {
        std::mem::size_of::<Self>()
    }
    fn raw_bytes(&mut self) -> *mut u8 {
        self as *mut Self as *mut u8
    }
    fn get(&self, i: usize) -> Option<&T> {
        CircularBuffer::get(self, i)
    }
    fn get_mut(&mut self, i: usize) -> Option<&mut T> {
        CircularBuffer::get_mut(self, i)
    }
    fn nth_front(&self, i: usize) -> Option<&T> {
        CircularBuffer::nth_front(self, i)
    }
    fn nth_front_mut(&mut self, i: usize) -> Option<&mut T> {
        CircularBuffer::nth_front_mut(self, i)
    }
    fn nth_back(&self, i: usize) -> Option<&T> {
        CircularBuffer::nth_back(self, i)
    }
    fn nth_back_mut(&mut self, i: usize) -> Option<&mut T> {
        CircularBuffer::nth_back_mut(self, i)
    }
    fn front(&self) -> Option<&T> {
        CircularBuffer::front(self)
    }
    fn front_mut(&mut self) -> Option<&mut T> {
        CircularBuffer::front_mut(self)
    }
    fn back(&self) -> Option<&T> {
        CircularBuffer::back(self)
    }
    fn back_mut(&mut self) -> Option<&mut T> {
        CircularBuffer::back_mut(self)
    }
    fn index(&self, i: usize) -> &T {
        &self[i]
    }
    fn index_mut(&mut self, i: usize) -> &mut T {
        &mut self[i]
    }
    fn as_slices(&self) -> (&[T], &[T]) {
        CircularBuffer::as_slices(self)
    }
    fn as_mut_slices(&mut self) -> (&mut [T], &mut [T]) {
        CircularBuffer::as_mut_slices(self)
    }
    fn make_contiguous(&mut self) -> &mut [T] {
        CircularBuffer::make_contiguous(self)
    }
    fn iter(&self) -> Iter<'_, T> {
        CircularBuffer::iter(self)
    }
    fn ref_into_iter(&self) -> Iter<'_, T> {
        IntoIterator::into_iter(self)
    }
    fn iter_mut(&mut self) -> IterMut<'_, T> {
        CircularBuffer::iter_mut(self)
    }
    fn range(&self, r: RangeArg) -> Iter<'_, T> {
        with_range!(r, |x| CircularBuffer::range(self, x))
    }
    fn range_mut(&mut self, r: RangeArg) -> IterMut<'_, T> {
        with_range!(r, |x| CircularBuffer::range_mut(self, x))
    }
    fn shifty(&mut self, r: RangeArg, mode: u8, which: u8) -> (Vec<T>, Vec<usize>) {
        let sh = Shifty { start: r.start, end: r.end, mode, calls: std::cell::Cell::new(0) };
        match which % 3 {
            0 => (CircularBuffer::drain(self, sh).collect(), Vec::new()),
            1 => (Vec::new(), CircularBuffer::range_mut(self, sh).map(|t| t as *mut T as usize).collect()),
            _ => (Vec::new(), CircularBuffer::range(self, sh).map(|t| t as *const T as usize).collect()),
        }
    }
    fn drain<'a>(&'a mut self, r: RangeArg) -> Box<dyn DrainDyn<T> + 'a> {
        with_range!(r, |x| Box::new(CircularBuffer::drain(self, x)))
    }
    fn push_back(&mut self, x: T) -> Option<T> {
        CircularBuffer::push_back(self, x)
    }
    fn push_front(&mut self, x: T) -> Option<T> {
        CircularBuffer::push_front(self, x)
    }
    fn try_push_back(&mut self, x: T) -> Result<(), T> {
        CircularBuffer::try_push_back(self, x)
    }
    fn try_push_front(&mut self, x: T) -> Result<(), T> {
        CircularBuffer::try_push_front(self, x)
    }
    fn pop_back(&mut self) -> Option<T> {
        CircularBuffer::pop_back(self)
    }
    fn pop_front(&mut self) -> Option<T> {
        CircularBuffer::pop_front(self)
    }
    fn remove(&mut self, i: usize) -> Option<T> {
        CircularBuffer::remove(self, i)
    }
    fn swap(&mut self, i: usize, j: usize) {
        CircularBuffer::swap(self, i, j)
    }
    fn swap_remove_back(&mut self, i: usize) -> Option<T> {
        CircularBuffer::swap_remove_back(self, i)
    }
    fn swap_remove_front(&mut self, i: usize) -> Option<T> {
        CircularBuffer::swap_remove_front(self, i)
    }
    fn truncate_back(&mut self, n: usize) {
        CircularBuffer::truncate_back(self, n)
    }
    fn truncate_front(&mut self, n: usize) {
        CircularBuffer::truncate_front(self, n)
    }
    fn clear(&mut self) {
        CircularBuffer::clear(self)
    }
    fn fill(&mut self, v: T) {
        CircularBuffer::fill(self, v)
    }
    fn fill_with(&mut self, f: &mut dyn FnMut() -> T) {
        CircularBuffer::fill_with(self, f)
    }
    fn fill_spare(&mut self, v: T) {
        CircularBuffer::fill_spare(self, v)
    }
    fn fill_spare_with(&mut self, f: &mut dyn FnMut() -> T) {
        CircularBuffer::fill_spare_with(self, f)
    }
    fn extend_dyn(&mut self, it: &mut dyn Iterator<Item = T>) {
        Extend::extend(self, it)
    }
    fn extend_pairs_dyn(&mut self, it: &mut dyn Iterator<Item = T>) {
        // the tuple impl wants to own both collections: a guard moves the buffer back even when the iterator panics
        struct Back<'a, const N: usize, T>(&'a mut CircularBuffer<N, T>, Option<(CircularBuffer<N, T>, Vec<()>)>);
        impl<const N: usize, T> Drop for Back<'_, N, T> {
            fn drop(&mut self) {
                if let Some((b, _)) = self.1.take() {
                    let empty = core::mem::replace(self.0, b);
                    core::mem::forget(empty);
                }
            }
        }
        let taken = core::mem::take(self);
        let mut g = Back(self, Some((taken, Vec::new())));
        g.1.as_mut().unwrap().extend(it.map(|t| (t, ())));
    }
    fn extend_from_slice(&mut self, s: &[T]) {
        CircularBuffer::extend_from_slice(self, s)
    }
    fn to_vec(&self) -> Vec<T> {
        CircularBuffer::to_vec(self)
    }
    fn clone_box(&self) -> Box<dyn Deq<T>> {
        Box::new(self.clone())
    }
    fn clone_from_dyn(&mut self, other: &dyn Deq<T>) {
        let o = other.as_any().downcast_ref::<Self>().expect("clone_from: same capacity");
        Clone::clone_from(self, o)
    }
    fn eq_dyn(&self, other: &dyn Deq<T>) -> bool {
        let o = other.as_any().downcast_ref::<Self>().expect("eq: same capacity");
        self == o
    }
    fn eq_slice(&self, other: &[T]) -> bool {
        self == other
    }
    fn eq_partners(&self, mut other: Vec<T>) -> (Vec<(&'static str, bool)>, Vec<T>) {
        let mut r = vec![("[U]", *self == other[..]), ("&[U]", *self == &other[..]), ("&mut [U]", *self == &mut other[..])];
        macro_rules! arrays {
            ($($m:literal)*) => {
                match other.len() {
                    $($m => {
                        let mut arr: [T; $m] = match other.try_into() { Ok(a) => a, Err(_) => unreachable!() };
                        r.push(("[U; M]", *self == arr));
                        r.push(("&[U; M]", *self == &arr));
                        r.push(("&mut [U; M]", *self == &mut arr));
                        other = Vec::from(arr);
                    })*
                    _ => {}
                }
            };
        }
        arrays!(0 1 2 3 4 5 6 7 8);
        (r, other)
    }
    fn partial_cmp_dyn(&self, other: &dyn Deq<T>) -> Option<Ordering> {
        let o = other.as_any().downcast_ref::<Self>().expect("cmp: same capacity");
        self.partial_cmp(o)
    }
    fn eq_any(&self, other: &dyn Deq<T>) -> bool {
        macro_rules! arm {
            ($($m:literal)*) => {
                match other.cap() {
                    $($m => self == other.as_any().downcast_ref::<CircularBuffer<$m, T>>().expect("capacity"),)*
                    m => panic!("eq_any: capacity {m} not in table"),
                }
            };
        }
        arm!(0 1 2 3 4 5 6 7 8)
    }
    fn partial_cmp_any(&self, other: &dyn Deq<T>) -> Option<Ordering> {
        macro_rules! arm {
            ($($m:literal)*) => {
                match other.cap() {
                    $($m => self.partial_cmp(other.as_any().downcast_ref::<CircularBuffer<$m, T>>().expect("capacity")),)*
                    m => panic!("partial_cmp_any: capacity {m} not in table"),
                }
            };
        }
        arm!(0 1 2 3 4 5 6 7 8)
    }
    fn cmp_dyn(&self, other: &dyn Deq<T>) -> Ordering {
        let o = other.as_any().downcast_ref::<Self>().expect("cmp: same capacity");
        self.cmp(o)
    }
    fn hash_u64(&self) -> u64 {
        let mut h = DefaultHasher::new();
        self.hash(&mut h);
        h.finish()
    }
    fn debug_string(&self, alt: bool) -> String {
        if alt {
            format!("{:#?}", self)
        } else {
            format!("{:?}", self)
        }
    }
    fn into_iter_box(self: Box<Self>) -> Box<dyn IntoIterDyn<T>> {
        Box::new((*self).into_iter())
    }
    fn move_box(self: Box<Self>) -> Box<dyn Deq<T>> {
        let v: Self = *self;
        Box::new(v)
    }
}

/// How the empty buffer is obtained.
#[derive(Debug, Clone, Copy, PartialEq, Eq, Hash)]
pub enum Ctor {
    New,
    Default,
    Boxed,
}

/// Capacities the interpreter is monomorphised for.
pub const CAPS_SMALL: &[usize] = &[0, 1, 2, 3, 4, 5, 6, 7, 8];
pub const CAPS_RANDOM: &[usize] =
    &[0, 1, 2, 3, 4, 5, 6, 7, 8, 9, 10, 11, 12, 13, 16, 17, 31, 32, 33, 64, 65, 100, 128, 129, 255, 256, 1000];

#[macro_export]
macro_rules! dispatch_cap {
    ($n:expr, $N:ident => $body:expr, $else:expr) => {
        match $n {
            0 => { const $N: usize = 0; $body }
            1 => { const $N: usize = 1; $body }
            2 => { const $N: usize = 2; $body }
            3 => { const $N: usize = 3; $body }
            4 => { const $N: usize = 4; $body }
            5 => { const $N: usize = 5; $body }
            6 => { const $N: usize = 6; $body }
            7 => { const $N: usize = 7; $body }
            8 => { const $N: usize = 8; $body }
            9 => { const $N: usize = 9; $body }
            10 => { const $N: usize = 10; $body }
            11 => { const $N: usize = 11; $body }
            12 => { const $N: usize = 12; $body }
            13 => { const $N: usize = 13; $body }
            16 => { const $N: usize = 16; $body }
            17 => { const $N: usize = 17; $body }
            19 => { const $N: usize = 19; $body }
            23 => { const $N: usize = 23; $body }
            24 => { const $N: usize = 24; $body }
            29 => { const $N: usize = 29; $body }
            31 => { const $N: usize = 31; $body }
            32 => { const $N: usize = 32; $body }
            33 => { const $N: usize = 33; $body }
            64 => { const $N: usize = 64; $body }
            65 => { const $N: usize = 65; $body }
            128 => { const $N: usize = 128; $body }
            129 => { const $N: usize = 129; $body }
            100 => { const $N: usize = 100; $body }
            255 => { const $N: usize = 255; $body }
            256 => { const $N: usize = 256; $body }
            1000 => { const $N: usize = 1000; $body }
            2048 => { const $N: usize = 2048; $body }
            _ => $else,
        }
    };
}

pub fn make_buf<T>(n: usize, ctor: Ctor) -> Box<dyn Deq<T>>
where
    T: Clone + PartialEq + Ord + Hash + Debug + 'static,
{
    fn mk<const N: usize, T>(ctor: Ctor) -> Box<dyn Deq<T>>
    where
        T: Clone + PartialEq + Ord + Hash + Debug + 'static,
    {
        match ctor {
            Ctor::New => Box::new(CircularBuffer::<N, T>::new()),
            Ctor::Default => Box::new(<CircularBuffer<N, T> as Default>::default()),
            Ctor::Boxed => CircularBuffer::<N, T>::boxed(),
        }
    }
    dispatch_cap!(n, N => mk::<N, T>(ctor), panic!("capacity {n} not in table"))
}

/// `CircularBuffer::<N, T>::from([T; M])` for table capacities and M <= 17.
pub fn from_array<T>(n: usize, items: Vec<T>) -> Box<dyn Deq<T>>
where
    T: Clone + PartialEq + Ord + Hash + Debug + 'static,
{
    fn mk<const N: usize, T>(items: Vec<T>) -> Box<dyn Deq<T>>
    where
        T: Clone + PartialEq + Ord + Hash + Debug + 'static,
    {
        macro_rules! arms {
            ($($m:literal)*) => {
                match items.len() {
                    $($m => {
                        let arr: [T; $m] = match items.try_into() { Ok(a) => a, Err(_) => unreachable!() };
                        Box::new(CircularBuffer::<N, T>::from(arr))
                    })*
                    m => panic!("array length {m} not in table"),
                }
            };
        }
        arms!(0 1 2 3 4 5 6 7 8 9 10 11 12 13 14 15 16 17 18 19)
    }
    match n {
        0 => mk::<0, T>(items),
        1 => mk::<1, T>(items),
        2 => mk::<2, T>(items),
        3 => mk::<3, T>(items),
        4 => mk::<4, T>(items),
        5 => mk::<5, T>(items),
        6 => mk::<6, T>(items),
        7 => mk::<7, T>(items),
        8 => mk::<8, T>(items),
        9 => mk::<9, T>(items),
        _ => {
            // a few larger (N, M) pairs: M below, at and above N around the sizes 32 / 64 / 128 / 256
            macro_rules! big {
                ($(($bn:literal, $bm:literal))*) => {
                    match (n, items.len()) {
                        $(($bn, $bm) => {
                            let arr: [T; $bm] = match items.try_into() { Ok(a) => a, Err(_) => unreachable!() };
                            Box::new(CircularBuffer::<$bn, T>::from(arr))
                        })*
                        (n, m) => panic!("from_array: pair ({n}, {m}) not in table"),
                    }
                };
            }
            big!((33, 32) (33, 33) (33, 100) (64, 63) (64, 64) (64, 65) (65, 64) (65, 130) (128, 128) (128, 130) (256, 255) (256, 256) (256, 300))
        }
    }
}
pub const FROM_ARRAY_BIG_PAIRS: [(usize, usize); 13] =
    [(33, 32), (33, 33), (33, 100), (64, 63), (64, 64), (64, 65), (65, 64), (65, 130), (128, 128), (128, 130), (256, 255), (256, 256), (256, 300)];
pub const FROM_ARRAY_MAX_N: usize = 9;
pub const FROM_ARRAY_MAX_M: usize = 19;

/// `FromIterator` for table capacities.
pub fn from_iter_dyn<T>(n: usize, it: &mut dyn Iterator<Item = T>) -> Box<dyn Deq<T>>
where
    T: Clone + PartialEq + Ord + Hash + Debug + 'static,
{
    fn mk<const N: usize, T>(it: &mut dyn Iterator<Item = T>) -> Box<dyn Deq<T>>
    where
        T: Clone + PartialEq + Ord + Hash + Debug + 'static,
    {
        Box::new(it.collect::<CircularBuffer<N, T>>())
    }
    dispatch_cap!(n, N => mk::<N, T>(it), panic!("capacity {n} not in table"))
}

/// `Iterator::unzip` into (CircularBuffer, Vec<()>) for table capacities.
pub fn unzip_dyn<T>(n: usize, it: &mut dyn Iterator<Item = T>) -> Box<dyn Deq<T>>
where
    T: Clone + PartialEq + Ord + Hash + Debug + 'static,
{
    fn mk<const N: usize, T>(it: &mut dyn Iterator<Item = T>) -> Box<dyn Deq<T>>
    where
        T: Clone + PartialEq + Ord + Hash + Debug + 'static,
    {
        let (b, _units): (CircularBuffer<N, T>, Vec<()>) = it.map(|t| (t, ())).unzip();
        Box::new(b)
    }
    dispatch_cap!(n, N => mk::<N, T>(it), panic!("capacity {n} not in table"))
}

struct SinkGaveUp;

struct FailingSink {
    left: usize,
    panic: bool,
}

impl std::fmt::Write for FailingSink {
    fn write_str(&mut self, s: &str) -> std::fmt::Result {
        if s.len() > self.left {
            self.left = 0;
            if self.panic {
                std::panic::panic_any(SinkGaveUp);
            }
            return Err(std::fmt::Error);
        }
        self.left -= s.len();
        Ok(())
    }
}

pub fn debug_into_failing_sink<D: Debug + ?Sized>(d: &D, budget: usize, panic: bool) -> Option<bool> {
    use std::fmt::Write;
    let mut sink = FailingSink { left: budget, panic };
    match std::panic::catch_unwind(std::panic::AssertUnwindSafe(|| write!(sink, "{:?}", d))) {
        Ok(r) => Some(r.is_err()),
        Err(p) => {
            if p.downcast_ref::<SinkGaveUp>().is_none() {
                std::panic::resume_unwind(p);
            }
            None
        }
    }
}
