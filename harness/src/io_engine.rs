//! Byte-stream I/O engine (C14) and its embedded-io / embedded-io-async differential (C16).

use circular_buffer::CircularBuffer;
use serde::{Deserialize, Serialize};
use std::collections::{BTreeMap, HashSet};
use std::io::{BufRead, Read, Write};
use std::panic::{catch_unwind, AssertUnwindSafe};
use std::sync::atomic::{AtomicUsize, Ordering};
use std::sync::Mutex;

#[derive(Debug, Clone, Copy, PartialEq, Eq, Hash, Serialize, Deserialize)]
pub enum Api {
    Std,
    Eio,
    EioAsync,
}

#[derive(Debug, Clone, Copy, PartialEq, Eq, Hash, Serialize, Deserialize)]
pub enum Amt {
    At(u32),
    /// len + k
    Past(u32),
    Max,
    Frac(u16),
}
impl Amt {
    fn resolve(self, len: usize) -> usize {
        match self {
            Amt::At(k) => k as usize,
            Amt::Past(k) => len + k as usize,
            Amt::Max => usize::MAX,
            Amt::Frac(k) => ((k as u64 * (len as u64 + 3)) >> 16) as usize,
        }
    }
}

#[derive(Debug, Clone, PartialEq, Eq, Hash, Serialize, Deserialize)]
pub enum IoOp {
    Write(u32),
    Read(u32),
    FillBuf,
    Consume(Amt),
    Flush,
    WriteAll(u32),
    ReadExact(u32),
    ReadToEnd,
    WriteFmt(u32),
    /// `Extend<&u8>` (only meaningful for Copy element types, so it lives in this engine)
    ExtendRef(u32),
    FillBufConsume(Amt),
    /// BufRead::read_until with a delimiter taken from position k of the contents (or absent)
    ReadUntil(Amt),
    /// Read::read_vectored into three destinations of the given lengths
    ReadVectored(u32, u32, u32),
    /// Write::write_vectored from three sources of the given lengths
    WriteVectored(u32, u32, u32),
    /// Read::bytes().take(k)
    Bytes(u32),
    /// std::io::copy(&mut buffer, &mut Vec)
    CopyOut,
    /// Read::take(k).read_to_end
    TakeToEnd(u32),
    /// Read::read_to_string (cases containing it use a payload of multi-byte UTF-8 text)
    ReadToString,
    /// BufRead::read_line (same payload)
    ReadLine,
    /// BufRead::skip_until with a delimiter taken from position k of the contents (or absent)
    SkipUntil(Amt),
    /// async traits only: create the future of write / read / flush / fill_buf and drop it without polling it;
    /// nothing may have happened (futures are inert until polled)
    Unpolled(u8, u32),
}

#[derive(Debug, Clone, PartialEq, Eq, Hash, Serialize, Deserialize)]
pub struct IoCase {
    pub n: u32,
    pub start: u32,
    pub len: u32,
    pub route: u8,
    pub pattern: u8,
    pub api: Api,
    pub ops: Vec<IoOp>,
}

impl IoCase {
    pub fn render(&self) -> String {
        format!(
            "N={} layout(start={},len={},route={}) free-slot-pattern={:#04x} api={:?} ops={:?}",
            self.n, self.start, self.len, self.route, self.pattern, self.api, self.ops
        )
    }
}

pub trait ByteDeq {
    fn contents(&self) -> Vec<u8>;
    fn len(&self) -> usize;
    fn addr_of(&self, i: usize) -> Option<usize>;
    fn struct_addr(&self) -> usize;
    fn raw(&mut self) -> *mut u8;
    fn push_back(&mut self, b: u8);
    fn push_front(&mut self, b: u8);
    fn pop_front(&mut self) -> Option<u8>;
    fn pop_back(&mut self) -> Option<u8>;
    fn extend_ref(&mut self, s: &[u8]);
    fn extend_from_slice(&mut self, s: &[u8]);
    fn clear(&mut self);
    fn truncate_front(&mut self, n: usize);
    // std::io
    fn s_write(&mut self, s: &[u8]) -> std::io::Result<usize>;
    fn s_flush(&mut self) -> std::io::Result<()>;
    fn s_read(&mut self, d: &mut [u8]) -> std::io::Result<usize>;
    fn s_fill_buf(&mut self) -> std::io::Result<Vec<u8>>;
    fn s_consume(&mut self, k: usize);
    fn s_write_all(&mut self, s: &[u8]) -> std::io::Result<()>;
    fn s_read_exact(&mut self, d: &mut [u8]) -> std::io::Result<()>;
    fn s_read_to_end(&mut self, v: &mut Vec<u8>) -> std::io::Result<usize>;
    fn s_write_fmt(&mut self, s: &str) -> std::io::Result<()>;
    fn s_read_until(&mut self, delim: u8, v: &mut Vec<u8>) -> std::io::Result<usize>;
    fn s_skip_until(&mut self, delim: u8) -> std::io::Result<usize>;
    fn s_read_vectored(&mut self, d: [&mut [u8]; 3]) -> std::io::Result<usize>;
    fn s_write_vectored(&mut self, s: [&[u8]; 3]) -> std::io::Result<usize>;
    fn s_bytes(&mut self, k: usize) -> Vec<Result<u8, String>>;
    fn s_copy_out(&mut self, v: &mut Vec<u8>) -> std::io::Result<u64>;
    fn s_take_to_end(&mut self, k: u64, v: &mut Vec<u8>) -> std::io::Result<usize>;
    fn s_read_to_string(&mut self, v: &mut String) -> std::io::Result<usize>;
    fn s_read_line(&mut self, v: &mut String) -> std::io::Result<usize>;
    // embedded-io (Err(String) = returned an error; None = Pending for async)
    fn e_write(&mut self, api: Api, s: &[u8]) -> Option<Result<usize, String>>;
    fn e_flush(&mut self, api: Api) -> Option<Result<(), String>>;
    fn e_read(&mut self, api: Api, d: &mut [u8]) -> Option<Result<usize, String>>;
    fn e_fill_buf(&mut self, api: Api) -> Option<Result<Vec<u8>, String>>;
    fn e_consume(&mut self, api: Api, k: usize);
    /// provided methods of the embedded traits: Ok(Ok) = done, Ok(Err(true)) = UnexpectedEof / WriteZero, Ok(Err(false)) = other error
    fn e_read_exact(&mut self, api: Api, d: &mut [u8]) -> Option<Result<(), bool>>;
    fn e_write_all(&mut self, api: Api, s: &[u8]) -> Option<Result<(), String>>;
    fn e_unpolled(&mut self, which: u8, s: &[u8]);
}

#[cfg(feature = "eio")]
use embedded_io::ReadExactError;
#[cfg(all(feature = "eio-async", not(feature = "eio")))]
use embedded_io_async::ReadExactError;

#[cfg(feature = "eio-async")]
fn poll_once<F: std::future::Future>(f: F) -> Option<F::Output> {
    let mut f = std::pin::pin!(f);
    let mut cx = std::task::Context::from_waker(std::task::Waker::noop());
    match f.as_mut().poll(&mut cx) {
        std::task::Poll::Ready(v) => Some(v),
        std::task::Poll::Pending => None,
    }
}

impl<const N: usize> ByteDeq for CircularBuffer<N, u8> {
    fn contents(&self) -> Vec<u8> {
        self.iter().copied().collect()
    }
    fn len(&self) -> usize {
        CircularBuffer::len(self)
    }
    fn addr_of(&self, i: usize) -> Option<usize> {
        self.get(i).map(|r| r as *const u8 as usize)
    }
    fn struct_addr(&self) -> usize {
        self as *const Self as usize
    }
    fn raw(&mut self) -> *mut u8 {
        self as *mut Self as *mut u8
    }
    fn push_back(&mut self, b: u8) {
        CircularBuffer::push_back(self, b);
    }
    fn push_front(&mut self, b: u8) {
        CircularBuffer::push_front(self, b);
    }
    fn pop_front(&mut self) -> Option<u8> {
        CircularBuffer::pop_front(self)
    }
    fn pop_back(&mut self) -> Option<u8> {
        CircularBuffer::pop_back(self)
    }
    fn extend_ref(&mut self, s: &[u8]) {
        Extend::<&u8>::extend(self, s.iter())
    }
    fn extend_from_slice(&mut self, s: &[u8]) {
        CircularBuffer::extend_from_slice(self, s)
    }
    fn clear(&mut self) {
        CircularBuffer::clear(self)
    }
    fn truncate_front(&mut self, n: usize) {
        CircularBuffer::truncate_front(self, n)
    }
    fn s_write(&mut self, s: &[u8]) -> std::io::Result<usize> {
        Write::write(self, s)
    }
    fn s_flush(&mut self) -> std::io::Result<()> {
        Write::flush(self)
    }
    fn s_read(&mut self, d: &mut [u8]) -> std::io::Result<usize> {
        Read::read(self, d)
    }
    fn s_fill_buf(&mut self) -> std::io::Result<Vec<u8>> {
        BufRead::fill_buf(self).map(|s| s.to_vec())
    }
    fn s_consume(&mut self, k: usize) {
        BufRead::consume(self, k)
    }
    fn s_write_all(&mut self, s: &[u8]) -> std::io::Result<()> {
        Write::write_all(self, s)
    }
    fn s_read_exact(&mut self, d: &mut [u8]) -> std::io::Result<()> {
        Read::read_exact(self, d)
    }
    fn s_read_to_end(&mut self, v: &mut Vec<u8>) -> std::io::Result<usize> {
        Read::read_to_end(self, v)
    }
    fn s_write_fmt(&mut self, s: &str) -> std::io::Result<()> {
        write!(self, "{}", s)
    }
    fn s_read_until(&mut self, delim: u8, v: &mut Vec<u8>) -> std::io::Result<usize> {
        BufRead::read_until(self, delim, v)
    }
    fn s_skip_until(&mut self, delim: u8) -> std::io::Result<usize> {
        BufRead::skip_until(self, delim)
    }
    fn s_read_vectored(&mut self, d: [&mut [u8]; 3]) -> std::io::Result<usize> {
        let [a, b, c] = d;
        let mut bufs = [std::io::IoSliceMut::new(a), std::io::IoSliceMut::new(b), std::io::IoSliceMut::new(c)];
        Read::read_vectored(self, &mut bufs)
    }
    fn s_write_vectored(&mut self, s: [&[u8]; 3]) -> std::io::Result<usize> {
        let bufs = [std::io::IoSlice::new(s[0]), std::io::IoSlice::new(s[1]), std::io::IoSlice::new(s[2])];
        Write::write_vectored(self, &bufs)
    }
    fn s_bytes(&mut self, k: usize) -> Vec<Result<u8, String>> {
        Read::bytes(Read::by_ref(self)).take(k).map(|r| r.map_err(|e| e.to_string())).collect()
    }
    fn s_copy_out(&mut self, v: &mut Vec<u8>) -> std::io::Result<u64> {
        std::io::copy(self, v)
    }
    fn s_take_to_end(&mut self, k: u64, v: &mut Vec<u8>) -> std::io::Result<usize> {
        Read::take(Read::by_ref(self), k).read_to_end(v)
    }
    fn s_read_to_string(&mut self, v: &mut String) -> std::io::Result<usize> {
        Read::read_to_string(self, v)
    }
    fn s_read_line(&mut self, v: &mut String) -> std::io::Result<usize> {
        BufRead::read_line(self, v)
    }
    #[allow(unused_variables)]
    fn e_read_exact(&mut self, api: Api, d: &mut [u8]) -> Option<Result<(), bool>> {
        match api {
            #[cfg(feature = "eio")]
            Api::Eio => Some(embedded_io::Read::read_exact(self, d).map_err(|e| matches!(e, ReadExactError::UnexpectedEof))),
            #[cfg(feature = "eio-async")]
            Api::EioAsync => poll_once(embedded_io_async::Read::read_exact(self, d)).map(|r| r.map_err(|e| matches!(e, ReadExactError::UnexpectedEof))),
            _ => panic!("api not compiled in"),
        }
    }
    #[allow(unused_variables)]
    fn e_unpolled(&mut self, which: u8, s: &[u8]) {
        #[cfg(feature = "eio-async")]
        {
            let mut d = [0u8; 5];
            match which % 4 {
                0 => drop(embedded_io_async::Write::write(self, s)),
                1 => drop(embedded_io_async::Read::read(self, &mut d)),
                2 => drop(embedded_io_async::Write::flush(self)),
                _ => drop(embedded_io_async::BufRead::fill_buf(self)),
            }
            if d != [0u8; 5] {
                panic!("a read future that was never polled wrote to its destination");
            }
        }
    }
    #[allow(unused_variables)]
    fn e_write_all(&mut self, api: Api, s: &[u8]) -> Option<Result<(), String>> {
        match api {
            #[cfg(feature = "eio")]
            Api::Eio => Some(embedded_io::Write::write_all(self, s).map_err(|e| format!("{e:?}"))),
            #[cfg(feature = "eio-async")]
            Api::EioAsync => poll_once(embedded_io_async::Write::write_all(self, s)).map(|r| r.map_err(|e| format!("{e:?}"))),
            _ => panic!("api not compiled in"),
        }
    }
    #[allow(unused_variables)]
    fn e_write(&mut self, api: Api, s: &[u8]) -> Option<Result<usize, String>> {
        match api {
            #[cfg(feature = "eio")]
            Api::Eio => Some(embedded_io::Write::write(self, s).map_err(|e| format!("{e:?}"))),
            #[cfg(feature = "eio-async")]
            Api::EioAsync => poll_once(embedded_io_async::Write::write(self, s)).map(|r| r.map_err(|e| format!("{e:?}"))),
            _ => panic!("api not compiled in"),
        }
    }
    #[allow(unused_variables)]
    fn e_flush(&mut self, api: Api) -> Option<Result<(), String>> {
        match api {
            #[cfg(feature = "eio")]
            Api::Eio => Some(embedded_io::Write::flush(self).map_err(|e| format!("{e:?}"))),
            #[cfg(feature = "eio-async")]
            Api::EioAsync => poll_once(embedded_io_async::Write::flush(self)).map(|r| r.map_err(|e| format!("{e:?}"))),
            _ => panic!("api not compiled in"),
        }
    }
    #[allow(unused_variables)]
    fn e_read(&mut self, api: Api, d: &mut [u8]) -> Option<Result<usize, String>> {
        match api {
            #[cfg(feature = "eio")]
            Api::Eio => Some(embedded_io::Read::read(self, d).map_err(|e| format!("{e:?}"))),
            #[cfg(feature = "eio-async")]
            Api::EioAsync => poll_once(embedded_io_async::Read::read(self, d)).map(|r| r.map_err(|e| format!("{e:?}"))),
            _ => panic!("api not compiled in"),
        }
    }
    #[allow(unused_variables)]
    fn e_fill_buf(&mut self, api: Api) -> Option<Result<Vec<u8>, String>> {
        match api {
            #[cfg(feature = "eio")]
            Api::Eio => Some(embedded_io::BufRead::fill_buf(self).map(|s| s.to_vec()).map_err(|e| format!("{e:?}"))),
            #[cfg(feature = "eio-async")]
            Api::EioAsync => {
                poll_once(embedded_io_async::BufRead::fill_buf(self)).map(|r| r.map(|s| s.to_vec()).map_err(|e| format!("{e:?}")))
            }
            _ => panic!("api not compiled in"),
        }
    }
    #[allow(unused_variables)]
    fn e_consume(&mut self, api: Api, k: usize) {
        match api {
            #[cfg(feature = "eio")]
            Api::Eio => embedded_io::BufRead::consume(self, k),
            #[cfg(feature = "eio-async")]
            Api::EioAsync => embedded_io_async::BufRead::consume(self, k),
            _ => panic!("api not compiled in"),
        }
    }
}

pub fn api_available(api: Api) -> bool {
    match api {
        Api::Std => true,
        Api::Eio => cfg!(feature = "eio"),
        Api::EioAsync => cfg!(feature = "eio-async"),
    }
}

fn make(n: usize, boxed: bool) -> Box<dyn ByteDeq> {
    fn mk<const N: usize>(boxed: bool) -> Box<dyn ByteDeq> {
        if boxed {
            CircularBuffer::<N, u8>::boxed()
        } else {
            Box::new(CircularBuffer::<N, u8>::new())
        }
    }
    match n {
        // capacities above any plausible "large backlog" threshold (one page and more)
        4097 => mk::<4097>(boxed),
        4098 => mk::<4098>(boxed),
        5000 => mk::<5000>(boxed),
        10000 => mk::<10000>(boxed),
        _ => crate::dispatch_cap!(n, N => mk::<N>(boxed), panic!("capacity {n} not in table")),
    }
}

pub const BIG_IO_CAPS: [usize; 9] = [65, 100, 129, 256, 1000, 4097, 4098, 5000, 10000];

thread_local! {
    static OFF: std::cell::RefCell<std::collections::HashMap<usize, usize>> = Default::default();
}
fn items_off(n: usize) -> usize {
    if n == 0 {
        return 0;
    }
    if let Some(o) = OFF.with(|m| m.borrow().get(&n).copied()) {
        return o;
    }
    let mut b = make(n, false);
    for _ in 0..n {
        b.push_back(1);
    }
    let base = b.struct_addr();
    let min = (0..n).filter_map(|i| b.addr_of(i)).min().unwrap();
    let off = min - base;
    OFF.with(|m| m.borrow_mut().insert(n, off));
    off
}

struct Sub {
    b: Box<dyn ByteDeq>,
    n: usize,
    off: usize,
    pattern: u8,
}

impl Sub {
    fn build(n: usize, start: usize, len: usize, route: u8, pattern: u8, payload: &mut Payload) -> Result<Sub, String> {
        let mut b = make(n, route % 2 == 1);
        if n > 0 {
            let s = start % n;
            match route % 3 {
                0 => {
                    for _ in 0..s {
                        b.push_back(0xEE);
                    }
                    for _ in 0..s {
                        b.pop_front();
                    }
                }
                1 => {
                    for _ in 0..(n - s) {
                        b.push_front(0xEE);
                    }
                    for _ in 0..=n {
                        if b.pop_back().is_none() {
                            break;
                        }
                    }
                }
                _ => {
                    let junk = vec![0xEEu8; n];
                    b.extend_from_slice(&junk);
                    for _ in 0..s {
                        b.push_back(0xEE);
                    }
                    b.clear();
                }
            }
            if b.len() != 0 {
                return Err("setup: buffer not empty".into());
            }
            for _ in 0..len.min(n) {
                b.push_back(payload.next());
            }
        }
        let mut s = Sub { b, n, off: items_off(n), pattern };
        s.poison()?;
        Ok(s)
    }

    fn slots(&self) -> Result<Vec<usize>, String> {
        let base = self.b.struct_addr() + self.off;
        (0..self.b.len())
            .map(|i| {
                let a = self.b.addr_of(i).ok_or_else(|| format!("get({i}) is None with len {}", self.b.len()))?;
                let d = a.checked_sub(base).filter(|d| *d < self.n).ok_or_else(|| format!("position {i} lies outside the buffer's storage"))?;
                Ok(d)
            })
            .collect()
    }

    fn poison(&mut self) -> Result<(), String> {
        if self.n == 0 {
            return Ok(());
        }
        let slots = self.slots()?;
        let mut occ = vec![false; self.n];
        for s in slots {
            occ[s] = true;
        }
        let p = self.b.raw();
        for s in 0..self.n {
            if !occ[s] {
                // SAFETY: the slot is inside the buffer object and unoccupied; any byte is legal.
                unsafe { *p.add(self.off + s) = self.pattern };
            }
        }
        Ok(())
    }
}

struct Payload(u32, bool, bool);
const TEXT: &[u8] = "a\u{e9}\u{20ac}\u{1f600}\nz".as_bytes();
impl Payload {
    /// mode false: running counter 1..=89, never equal to a poison pattern (0x00, 0x5A, 0xEE, 0xFF);
    /// mode true: a sequence over ALL byte values (0x00 and 0xFF included, runs of equal bytes), so
    /// that value-dependent fast paths are exercised too
    fn next(&mut self) -> u8 {
        self.0 += 1;
        if self.2 {
            // multi-byte UTF-8 text: 1-, 2-, 3- and 4-byte characters and a newline
            return TEXT[(self.0 as usize - 1) % TEXT.len()];
        }
        if self.1 {
            let k = self.0;
            match k % 7 {
                0 => 0x00,
                1 => 0xFF,
                2 => 0x00,
                _ => (k.wrapping_mul(37) >> 1) as u8,
            }
        } else {
            (1 + (self.0 - 1) % 89) as u8
        }
    }
    fn take(&mut self, m: usize) -> Vec<u8> {
        (0..m).map(|_| self.next()).collect()
    }
}

pub mod iofl {
    pub const PARTIAL: u64 = 1; // transfer was partial / clamped
    pub const WRAP: u64 = 2; // contents or free space crossed the wrap point at the call
    pub const ZERO_CAP: u64 = 4;
    pub const OVERWRITE: u64 = 8; // write longer than the free space
    pub const NONEMPTY: u64 = 16;
}

fn guard<T>(what: &str, f: impl FnOnce() -> T) -> Result<T, String> {
    catch_unwind(AssertUnwindSafe(f)).map_err(|p| format!("{what} panicked: {}", crate::interp::panic_msg(&p)))
}

/// Runs one I/O case.  The subject buffer is driven through `case.api`; for the embedded-io APIs
/// a twin in the same state is driven through std::io and every result is compared (C16); the
/// std side is compared with the byte-queue model (C14).
pub fn run_io_case(case: &IoCase) -> Result<u64, String> {
    let n = case.n as usize;
    let mut flags = 0u64;
    if n == 0 {
        flags |= iofl::ZERO_CAP;
    }
    // the filling 0x5A selects the full-range payload (0x5A itself is then a possible payload byte too)
    let wide = case.pattern == 0x5A && case.route % 2 == 0;
    let text = case.ops.iter().any(|o| matches!(o, IoOp::ReadToString | IoOp::ReadLine));
    let mut pay = Payload(0, wide, text);
    let mut pay_twin = Payload(0, wide, text);
    let mut a = Sub::build(n, case.start as usize, case.len as usize, case.route, case.pattern, &mut pay)?;
    let differential = case.api != Api::Std;
    let mut twin = if differential {
        Some(Sub::build(n, case.start as usize, case.len as usize, case.route, case.pattern, &mut pay_twin)?)
    } else {
        None
    };
    let mut model: Vec<u8> = a.b.contents();
    if model.len() != (case.len as usize).min(n) {
        return Err("setup: wrong length".into());
    }
    let api = case.api;
    for (i, op) in case.ops.iter().enumerate() {
        let len = model.len();
        if len > 0 {
            flags |= iofl::NONEMPTY;
            let sl = a.slots()?;
            if sl[len - 1] < sl[0] {
                flags |= iofl::WRAP;
            } else if sl[0] > 0 && sl[len - 1] + 1 < n {
                flags |= iofl::WRAP;
            }
        }
        let ctx = |m: String| format!("op #{i} {op:?}: {m}");
        // what std does on the model
        match op {
            IoOp::Write(m) | IoOp::WriteAll(m) | IoOp::WriteFmt(m) | IoOp::ExtendRef(m) => {
                let m = *m as usize;
                let src = pay.take(m);
                if let Some(_) = twin {
                    pay_twin.take(m);
                }
                let src = if matches!(op, IoOp::WriteFmt(_)) { src.iter().map(|b| b'a' + b % 26).collect::<Vec<u8>>() } else { src };
                if m > n - len.min(n) {
                    flags |= iofl::OVERWRITE | iofl::PARTIAL;
                }
                // subject
                let r: Result<usize, String> = match (op, api) {
                    (IoOp::Write(_), Api::Std) => guard("write", || a.b.s_write(&src))?.map_err(|e| e.to_string()),
                    (IoOp::Write(_), _) => match guard("write", || a.b.e_write(api, &src))? {
                        None => return Err(ctx("the async write returned Pending".into())),
                        Some(r) => r,
                    },
                    (IoOp::WriteAll(_), Api::Std) => guard("write_all", || a.b.s_write_all(&src))?.map(|_| m).map_err(|e| e.to_string()),
                    (IoOp::WriteFmt(_), Api::Std) => {
                        let s = String::from_utf8(src.clone()).unwrap();
                        guard("write!", || a.b.s_write_fmt(&s))?.map(|_| m).map_err(|e| e.to_string())
                    }
                    (IoOp::ExtendRef(_), _) => {
                        guard("extend(&u8)", || a.b.extend_ref(&src))?;
                        Ok(m)
                    }
                    (IoOp::WriteAll(_), _) => match guard("write_all", || a.b.e_write_all(api, &src))? {
                        None => return Err(ctx("the async write_all returned Pending".into())),
                        Some(r) => r.map(|_| m),
                    },
                    (_, _) => match guard("write", || a.b.e_write(api, &src))? {
                        None => return Err(ctx("the async write returned Pending".into())),
                        Some(r) => r,
                    },
                };
                match r {
                    Ok(k) if k == m => {}
                    Ok(k) => return Err(ctx(format!("reported {k} bytes written, input had {m}"))),
                    Err(e) => return Err(ctx(format!("returned an error: {e}"))),
                }
                if let Some(t) = twin.as_mut() {
                    let tr = if matches!(op, IoOp::ExtendRef(_)) {
                        guard("extend(&u8) (twin)", || t.b.extend_ref(&src))?;
                        Ok(m)
                    } else {
                        guard("std write (twin)", || t.b.s_write(&src))?
                    };
                    if tr.map_err(|e| e.to_string()) != Ok(m) {
                        return Err(ctx("std twin disagrees on the count".into()));
                    }
                }
                model.extend_from_slice(&src);
                if model.len() > n {
                    let cut = model.len() - n;
                    model.drain(..cut);
                }
            }
            IoOp::Flush => {
                let r = match api {
                    Api::Std => guard("flush", || a.b.s_flush())?.map_err(|e| e.to_string()),
                    _ => match guard("flush", || a.b.e_flush(api))? {
                        None => return Err(ctx("the async flush returned Pending".into())),
                        Some(r) => r,
                    },
                };
                if let Err(e) = r {
                    return Err(ctx(format!("flush returned an error: {e}")));
                }
                if let Some(t) = twin.as_mut() {
                    let _ = guard("std flush (twin)", || t.b.s_flush())?;
                }
            }
            IoOp::Read(d) | IoOp::ReadExact(d) => {
                let d = *d as usize;
                let exact = matches!(op, IoOp::ReadExact(_)) && api == Api::Std;
                if matches!(op, IoOp::ReadExact(_)) && api != Api::Std {
                    // the provided read_exact of the embedded traits against std's in the twin
                    let mut dst = vec![0xA5u8; d];
                    let r = match guard("read_exact", || a.b.e_read_exact(api, &mut dst))? {
                        None => return Err(ctx("the async read_exact returned Pending".into())),
                        Some(r) => r,
                    };
                    let t = twin.as_mut().unwrap();
                    let mut d2 = vec![0xA5u8; d];
                    let tr = guard("std read_exact (twin)", || t.b.s_read_exact(&mut d2))?;
                    match (r, tr) {
                        (Ok(()), Ok(())) => {
                            if d > len || dst != d2 || dst[..] != model[..d] {
                                return Err(ctx(format!("read_exact delivered {:?}, std delivered {:?}, contents were {:?}", dst, d2, model)));
                            }
                            model.drain(..d);
                        }
                        (Err(true), Err(e)) if e.kind() == std::io::ErrorKind::UnexpectedEof && d > len => {
                            model.clear();
                        }
                        (r, tr) => return Err(ctx(format!("embedded read_exact returned {:?}, std read_exact in the same state returned {:?}", r, tr.map_err(|e| e.to_string())))),
                    }
                    let c = a.b.contents();
                    if c != model || t.b.contents() != c {
                        return Err(ctx(format!("contents after read_exact {:?} (std twin {:?}), expected {:?}", c, t.b.contents(), model)));
                    }
                    a.poison()?;
                    t.poison()?;
                    continue;
                }
                let mut dst = vec![0xA5u8; d];
                let want = d.min(len);
                // the read-everything probe that ends every enumerated case does not count
                let probe = i + 1 == case.ops.len() && case.ops.len() > 1 && d == n + 1;
                if (want < d || want < len) && !probe {
                    flags |= iofl::PARTIAL;
                }
                let r: Result<usize, String> = if exact {
                    match guard("read_exact", || a.b.s_read_exact(&mut dst))? {
                        Ok(()) => Ok(d),
                        Err(e) => {
                            // documented std behaviour: UnexpectedEof when fewer bytes are available;
                            // the buffer contents are then unspecified by std ("contents of buf are
                            // unspecified"), but the bytes must come from the stream: we only check
                            // that all buffered bytes were consumed.
                            if d > len && e.kind() == std::io::ErrorKind::UnexpectedEof {
                                model.clear();
                                let c = a.b.contents();
                                if !c.is_empty() {
                                    return Err(ctx(format!("read_exact hit EOF but {} bytes remain buffered", c.len())));
                                }
                                a.poison()?;
                                continue;
                            }
                            Err(e.to_string())
                        }
                    }
                } else {
                    match api {
                        Api::Std => guard("read", || a.b.s_read(&mut dst))?.map_err(|e| e.to_string()),
                        _ => match guard("read", || a.b.e_read(api, &mut dst))? {
                            None => return Err(ctx("the async read returned Pending".into())),
                            Some(r) => r,
                        },
                    }
                };
                let k = match r {
                    Ok(k) => k,
                    Err(e) => return Err(ctx(format!("read returned an error: {e}"))),
                };
                if k != want {
                    return Err(ctx(format!("read returned {k}, expected min(dst {d}, buffered {len}) = {want}")));
                }
                if dst[..k] != model[..k] {
                    return Err(ctx(format!("read delivered {:?}, expected {:?}", &dst[..k], &model[..k])));
                }
                if dst[k..].iter().any(|b| *b != 0xA5) {
                    return Err(ctx("read modified destination bytes beyond the reported count".into()));
                }
                if let Some(t) = twin.as_mut() {
                    let mut d2 = vec![0xA5u8; d];
                    let tr = guard("std read (twin)", || t.b.s_read(&mut d2))?.map_err(|e| e.to_string());
                    if tr != Ok(k) || d2 != dst {
                        return Err(ctx(format!("std::io::Read in the same state returned {:?} / {:?}, embedded returned {k} / {:?}", tr, d2, dst)));
                    }
                }
                model.drain(..k);
            }
            IoOp::ReadToEnd => {
                if api != Api::Std {
                    continue;
                }
                let mut v = vec![7u8, 7];
                let r = guard("read_to_end", || a.b.s_read_to_end(&mut v))?.map_err(|e| e.to_string());
                if r != Ok(len) {
                    return Err(ctx(format!("read_to_end returned {:?}, expected Ok({len})", r)));
                }
                if v[..2] != [7, 7] || v[2..] != model[..] {
                    return Err(ctx(format!("read_to_end delivered {:?}, expected {:?}", &v[2..], model)));
                }
                model.clear();
            }
            IoOp::FillBuf | IoOp::FillBufConsume(_) => {
                let r = match api {
                    Api::Std => guard("fill_buf", || a.b.s_fill_buf())?.map_err(|e| e.to_string()),
                    _ => match guard("fill_buf", || a.b.e_fill_buf(api))? {
                        None => return Err(ctx("the async fill_buf returned Pending".into())),
                        Some(r) => r,
                    },
                };
                let p = match r {
                    Ok(p) => p,
                    Err(e) => return Err(ctx(format!("fill_buf returned an error: {e}"))),
                };
                if p.len() > len || p[..] != model[..p.len()] {
                    return Err(ctx(format!("fill_buf returned {:?}, which is not a prefix of the contents {:?}", p, model)));
                }
                if p.is_empty() != model.is_empty() {
                    return Err(ctx(format!("fill_buf returned {} bytes with {len} bytes buffered", p.len())));
                }
                if p.len() < len {
                    flags |= iofl::PARTIAL;
                }
                if let Some(t) = twin.as_mut() {
                    let tp = guard("std fill_buf (twin)", || t.b.s_fill_buf())?.map_err(|e| e.to_string());
                    if tp != Ok(p.clone()) {
                        return Err(ctx(format!("std::io::BufRead::fill_buf in the same state returned {:?}, embedded returned {:?}", tp, p)));
                    }
                }
                if let IoOp::FillBufConsume(k) = op {
                    // the usual BufRead protocol: consume at most what fill_buf returned
                    let k = k.resolve(p.len()).min(p.len());
                    match api {
                        Api::Std => guard("consume", || a.b.s_consume(k))?,
                        _ => guard("consume", || a.b.e_consume(api, k))?,
                    }
                    if let Some(t) = twin.as_mut() {
                        guard("std consume (twin)", || t.b.s_consume(k))?;
                    }
                    model.drain(..k);
                }
            }
            IoOp::ReadUntil(k) => {
                if api != Api::Std {
                    continue;
                }
                let p = k.resolve(len);
                // a delimiter that occurs in the contents (at position p) or one that does not
                let delim = if p < len { model[p] } else { 0xFE };
                let want: Vec<u8> = match model.iter().position(|b| *b == delim) {
                    Some(i) => model[..=i].to_vec(),
                    None => model.clone(),
                };
                let mut v = vec![9u8];
                let r = guard("read_until", || a.b.s_read_until(delim, &mut v))?.map_err(|e| e.to_string());
                if r != Ok(want.len()) || v[1..] != want[..] || v[0] != 9 {
                    return Err(ctx(format!("read_until({delim}) returned {:?} and delivered {:?}, expected {:?}", r, &v[1..], want)));
                }
                if want.len() < len {
                    flags |= iofl::PARTIAL;
                }
                model.drain(..want.len());
            }
            IoOp::ReadVectored(d1, d2, d3) => {
                if api != Api::Std {
                    continue;
                }
                let ds = [*d1 as usize, *d2 as usize, *d3 as usize];
                let total: usize = ds.iter().sum();
                let (mut b1, mut b2, mut b3) = (vec![0xA5u8; ds[0]], vec![0xA5u8; ds[1]], vec![0xA5u8; ds[2]]);
                let r = guard("read_vectored", || a.b.s_read_vectored([&mut b1[..], &mut b2[..], &mut b3[..]]))?.map_err(|e| e.to_string());
                let k = match r {
                    Ok(k) => k,
                    Err(e) => return Err(ctx(format!("read_vectored returned an error: {e}"))),
                };
                // validity: like read() into the concatenation of the destinations, short counts allowed
                // (the provided method fills the first non-empty destination only), but never zero
                // while there are bytes and room, never more than either
                if k > total.min(len) || (k == 0 && total.min(len) > 0) {
                    return Err(ctx(format!("read_vectored returned {k} with {len} bytes buffered and destinations of {ds:?}")));
                }
                let mut cat = b1.clone();
                cat.extend_from_slice(&b2);
                cat.extend_from_slice(&b3);
                if cat[..k] != model[..k] {
                    return Err(ctx(format!("read_vectored reported {k} bytes; the destinations hold {:?}, expected them to start with {:?}", cat, &model[..k])));
                }
                if cat[k..].iter().any(|b| *b != 0xA5) {
                    return Err(ctx(format!("read_vectored reported {k} bytes but wrote beyond them: {:?}", cat)));
                }
                if k < total.min(len) {
                    flags |= iofl::PARTIAL;
                }
                model.drain(..k);
            }
            IoOp::WriteVectored(m1, m2, m3) => {
                if api != Api::Std {
                    continue;
                }
                let srcs = [pay.take(*m1 as usize), pay.take(*m2 as usize), pay.take(*m3 as usize)];
                let total: usize = srcs.iter().map(|s| s.len()).sum();
                let r = guard("write_vectored", || a.b.s_write_vectored([&srcs[0][..], &srcs[1][..], &srcs[2][..]]))?.map_err(|e| e.to_string());
                let k = match r {
                    Ok(k) => k,
                    Err(e) => return Err(ctx(format!("write_vectored returned an error: {e}"))),
                };
                // validity: a prefix of the concatenated sources was accepted; the buffer never refuses data,
                // so at least the first non-empty source is taken whole
                let first = srcs.iter().map(|s| s.len()).find(|l| *l > 0).unwrap_or(0);
                if k > total || k < first {
                    return Err(ctx(format!("write_vectored returned {k} for sources of {:?}", [m1, m2, m3])));
                }
                let cat: Vec<u8> = srcs.concat();
                if k > n - len.min(n) {
                    flags |= iofl::OVERWRITE | iofl::PARTIAL;
                }
                model.extend_from_slice(&cat[..k]);
                if model.len() > n {
                    let cut = model.len() - n;
                    model.drain(..cut);
                }
            }
            IoOp::Bytes(k) => {
                if api != Api::Std {
                    continue;
                }
                let k = *k as usize;
                let got = guard("bytes()", || a.b.s_bytes(k))?;
                let want: Vec<Result<u8, String>> = model.iter().take(k).map(|b| Ok(*b)).collect();
                if got != want {
                    return Err(ctx(format!("bytes().take({k}) yielded {:?}, expected {:?}", got, want)));
                }
                if k < len {
                    flags |= iofl::PARTIAL;
                }
                model.drain(..k.min(len));
            }
            IoOp::CopyOut | IoOp::TakeToEnd(_) => {
                if api != Api::Std {
                    continue;
                }
                let lim = if let IoOp::TakeToEnd(k) = op { (*k as usize).min(len) } else { len };
                let mut v = vec![3u8];
                let r = match op {
                    IoOp::TakeToEnd(k) => guard("take().read_to_end", || a.b.s_take_to_end(*k as u64, &mut v))?.map_err(|e| e.to_string()),
                    _ => guard("io::copy", || a.b.s_copy_out(&mut v))?.map(|c| c as usize).map_err(|e| e.to_string()),
                };
                if r != Ok(lim) || v[0] != 3 || v[1..] != model[..lim] {
                    return Err(ctx(format!("{op:?} returned {:?} and delivered {:?}, expected {:?}", r, &v[1..], &model[..lim])));
                }
                if lim < len {
                    flags |= iofl::PARTIAL;
                }
                model.drain(..lim);
            }
            IoOp::Unpolled(which, m) => {
                if api != Api::EioAsync {
                    continue;
                }
                let src = vec![0x42u8; *m as usize];
                guard("creating and dropping a future", || a.b.e_unpolled(*which, &src))?;
                // the model and the std twin see no call at all
            }
            IoOp::ReadToString | IoOp::ReadLine => {
                if api != Api::Std {
                    continue;
                }
                let line = matches!(op, IoOp::ReadLine);
                let take = if line { model.iter().position(|b| *b == b'\n').map(|i| i + 1).unwrap_or(len) } else { len };
                let want = std::str::from_utf8(&model[..take]).ok().map(|t| t.to_string());
                let mut v = String::from("p\u{e9}");
                let r = if line { guard("read_line", || a.b.s_read_line(&mut v))? } else { guard("read_to_string", || a.b.s_read_to_string(&mut v))? };
                match (&want, r) {
                    (Some(t), Ok(k)) if k == take && v == format!("p\u{e9}{t}") => {}
                    (None, Err(e)) if e.kind() == std::io::ErrorKind::InvalidData && v == "p\u{e9}" => {}
                    (w, r) => {
                        return Err(ctx(format!(
                            "returned {:?} and left the destination as {:?}; the bytes {:?} decode as {:?} (the result must not depend on where the contents wrap)",
                            r.map_err(|e| e.to_string()), v, &model[..take], w
                        )))
                    }
                }
                if take < len {
                    flags |= iofl::PARTIAL;
                }
                model.drain(..take);
            }
            IoOp::SkipUntil(k) => {
                if api != Api::Std {
                    continue;
                }
                let p = k.resolve(len);
                let delim = if p < len { model[p] } else { 0xFE };
                let want = match model.iter().position(|b| *b == delim) {
                    Some(i) => i + 1,
                    None => len,
                };
                let r = guard("skip_until", || a.b.s_skip_until(delim))?.map_err(|e| e.to_string());
                if r != Ok(want) {
                    return Err(ctx(format!("skip_until({delim}) returned {:?}, expected Ok({want}) for contents {:?}", r, model)));
                }
                if want < len {
                    flags |= iofl::PARTIAL;
                }
                model.drain(..want);
            }
            IoOp::Consume(k) => {
                let k = k.resolve(len);
                if k > len {
                    flags |= iofl::PARTIAL;
                }
                match api {
                    Api::Std => guard("consume", || a.b.s_consume(k))?,
                    _ => guard("consume", || a.b.e_consume(api, k))?,
                }
                if let Some(t) = twin.as_mut() {
                    guard("std consume (twin)", || t.b.s_consume(k))?;
                }
                model.drain(..k.min(len));
            }
        }
        let c = a.b.contents();
        if c != model {
            return Err(ctx(format!("contents afterwards {:?}, expected {:?}", c, model)));
        }
        if a.b.len() != model.len() {
            return Err(ctx(format!("len() = {} but {} bytes are buffered", a.b.len(), model.len())));
        }
        if let Some(t) = twin.as_mut() {
            if t.b.contents() != c {
                return Err(ctx(format!("std twin holds {:?}, embedded subject holds {:?}", t.b.contents(), c)));
            }
            let (sa, st) = (a.slots()?, t.slots()?);
            if sa != st {
                return Err(ctx(format!("the contents sit in slots {:?} after the embedded call but in slots {:?} after the std::io call in the same state", sa, st)));
            }
            t.poison()?;
        }
        a.poison()?;
    }
    Ok(flags)
}

// ------------------------------------------------------------------------------------------
// generators

fn amts(len: usize) -> Vec<Amt> {
    let mut v: Vec<Amt> = (0..=(len + 2) as u32).map(Amt::At).collect();
    v.push(Amt::Max);
    v
}

pub fn enum_ops(n: usize, len: usize, full: bool) -> Vec<IoOp> {
    let mut ops = vec![IoOp::FillBuf, IoOp::Flush, IoOp::ReadToEnd];
    for m in 0..=(2 * n + 1) as u32 {
        ops.push(IoOp::Write(m));
        ops.push(IoOp::WriteAll(m));
        ops.push(IoOp::WriteFmt(m));
        ops.push(IoOp::ExtendRef(m));
    }
    if n == 3 || n == 8 {
        // inputs much longer than any internal chunking threshold one might think of
        for m in [255u32, 256, 257, 4095, 4096, 4097, 8193, 70000] {
            ops.push(IoOp::Write(m));
        }
        ops.push(IoOp::Read(5000));
    }
    for d in 0..=(n + 2) as u32 {
        ops.push(IoOp::Read(d));
        ops.push(IoOp::ReadExact(d));
    }
    for k in amts(len) {
        ops.push(IoOp::Consume(k));
        ops.push(IoOp::FillBufConsume(k));
        ops.push(IoOp::ReadUntil(k));
        ops.push(IoOp::SkipUntil(k));
    }
    ops.push(IoOp::CopyOut);
    ops.push(IoOp::ReadToString);
    ops.push(IoOp::ReadLine);
    for w in 0..4u8 {
        for m in [0u32, 1, n as u32, (n + 1) as u32] {
            ops.push(IoOp::Unpolled(w, m));
        }
    }
    for k in 0..=(len + 1) as u32 {
        ops.push(IoOp::Bytes(k));
        ops.push(IoOp::TakeToEnd(k));
    }
    // vectored transfers: every split of the destinations / sources into three parts (small capacities),
    // two parts plus a fixed tail otherwise
    let lim = (n + 1) as u32;
    for d1 in 0..=lim {
        for d2 in 0..=lim {
            if n <= 4 && full {
                for d3 in 0..=lim {
                    ops.push(IoOp::ReadVectored(d1, d2, d3));
                    ops.push(IoOp::WriteVectored(d1, d2, d3));
                }
            } else {
                ops.push(IoOp::ReadVectored(d1, d2, 2));
                ops.push(IoOp::WriteVectored(d1, d2, 1));
            }
        }
    }
    ops
}

/// Sparse space for the big capacities: every operation with amounts around 0, the page size, the length and the capacity.
fn big_cases(n: usize, start: usize, len: usize, api: Api) -> Vec<IoCase> {
    let mut ks: Vec<usize> = vec![0, 1, 2, 31, 32, 33, 63, 64, 65, 100, 4095, 4096, 4097, len / 2, n / 2];
    for d in [0usize, 1, 2, 31, 32, 33, 63, 64, 65, 100, 4095, 4096, 4097] {
        ks.push(len.saturating_sub(d));
        ks.push(len + d);
        ks.push(n.saturating_sub(d));
    }
    ks.retain(|k| *k <= 2 * n + 1);
    ks.sort_unstable();
    ks.dedup();
    let mut ops = vec![IoOp::FillBuf, IoOp::Flush, IoOp::ReadToEnd, IoOp::CopyOut, IoOp::Consume(Amt::Max), IoOp::FillBufConsume(Amt::Max), IoOp::ReadUntil(Amt::Max)];
    for k in &ks {
        let k = *k as u32;
        ops.extend([IoOp::Write(k), IoOp::Read(k), IoOp::Consume(Amt::At(k)), IoOp::FillBufConsume(Amt::At(k)), IoOp::ReadUntil(Amt::At(k)), IoOp::SkipUntil(Amt::At(k)), IoOp::ReadExact(k), IoOp::TakeToEnd(k)]);
        ops.push(IoOp::ReadVectored(k, 3, 4097));
        ops.push(IoOp::WriteVectored(k, 1, 4097));
    }
    ops.into_iter()
        .enumerate()
        .map(|(i, op)| IoCase { n: n as u32, start: start as u32, len: len as u32, route: (i % 3) as u8, pattern: [0u8, 0xFF, 0x5A][i % 3], api, ops: vec![op, IoOp::Write(3), IoOp::Read((n + 1) as u32)] })
        .collect()
}

pub fn enum_cases(n: usize, start: usize, len: usize, api: Api, thorough: bool) -> Vec<IoCase> {
    if BIG_IO_CAPS.contains(&n) {
        return big_cases(n, start, len, api);
    }
    let mut out = Vec::new();
    let ops = enum_ops(n, len, true);
    let mk = |ops: Vec<IoOp>, route: u8, pattern: u8| IoCase { n: n as u32, start: start as u32, len: len as u32, route, pattern, api, ops };
    for (k, op) in ops.iter().enumerate() {
        for (pi, pattern) in [0x00u8, 0xFF, 0x5A].iter().enumerate() {
            // single step, then a read-everything step so that bytes pulled in from an unoccupied
            // slot are delivered and compared
            out.push(mk(vec![op.clone(), IoOp::Read((n + 1) as u32)], ((k + pi) % 3) as u8, *pattern));
        }
    }
    // all pairs of operations for the smaller capacities (bounded interleavings, depth 2 + read-back)
    let pair_cap = if thorough { 6 } else { 4 };
    if n <= pair_cap {
        let ops = enum_ops(n, len, false);
        for a in &ops {
            for b in &ops {
                out.push(mk(vec![a.clone(), b.clone(), IoOp::Read((n + 1) as u32)], 0, 0xFF));
            }
        }
    }
    out
}

pub fn io_case_strategy(api: Api, max_ops: usize) -> proptest::strategy::BoxedStrategy<IoCase> {
    use proptest::prelude::*;
    let caps: Vec<u32> = vec![0, 1, 2, 3, 4, 5, 6, 7, 8, 9, 13, 16, 17, 31, 32, 33, 64, 65, 100, 128, 129, 255, 256, 1000, 4098, 5000];
    let amt = prop_oneof![4 => any::<u16>().prop_map(Amt::Frac), 3 => (0u32..12).prop_map(Amt::At), 2 => (0u32..4).prop_map(Amt::Past), 1 => Just(Amt::Max)];
    proptest::sample::select(caps)
        .prop_flat_map(move |n| {
            let sz = prop_oneof![8 => 0u32..6, 6 => 0u32..(n + 3), 4 => 0u32..(2 * n + 3), 2 => n.saturating_sub(1)..(n + 2), 1 => 4000u32..9000];
            let amt = amt.clone();
            let op = prop_oneof![
                8 => sz.clone().prop_map(IoOp::Write),
                2 => sz.clone().prop_map(IoOp::WriteAll),
                1 => sz.clone().prop_map(IoOp::WriteFmt),
                2 => sz.clone().prop_map(IoOp::ExtendRef),
                8 => sz.clone().prop_map(IoOp::Read),
                2 => sz.clone().prop_map(IoOp::ReadExact),
                1 => Just(IoOp::ReadToEnd),
                3 => Just(IoOp::FillBuf),
                4 => amt.clone().prop_map(IoOp::Consume),
                4 => amt.clone().prop_map(IoOp::FillBufConsume),
                2 => amt.clone().prop_map(IoOp::ReadUntil),
                2 => amt.prop_map(IoOp::SkipUntil),
                1 => Just(IoOp::Flush),
                3 => (sz.clone(), sz.clone(), sz.clone()).prop_map(|(a, b, c)| IoOp::ReadVectored(a, b, c)),
                2 => (sz.clone(), sz.clone(), sz.clone()).prop_map(|(a, b, c)| IoOp::WriteVectored(a, b, c)),
                1 => sz.clone().prop_map(IoOp::Bytes),
                1 => sz.clone().prop_map(IoOp::TakeToEnd),
                1 => Just(IoOp::CopyOut),
                1 => Just(IoOp::ReadToString),
                1 => Just(IoOp::ReadLine),
                2 => (0u8..4, sz.clone()).prop_map(|(w, m)| IoOp::Unpolled(w, m)),
            ];
            (Just(n), any::<u16>(), any::<u16>(), 0u8..3, proptest::sample::select(vec![0u8, 0xFF, 0x5A]), proptest::collection::vec(op, 0..=max_ops))
        })
        .prop_map(move |(n, s, l, route, pattern, ops)| IoCase {
            n,
            start: if n == 0 { 0 } else { (s as u32 * n) >> 16 },
            len: (l as u32 * (n + 1)) >> 16,
            route,
            pattern,
            api,
            ops,
        })
        .boxed()
}

#[derive(Default)]
pub struct IoStats {
    pub evaluations: u64,
    pub nontrivial: HashSet<u64>,
    pub by_op: BTreeMap<String, u64>,
    pub flag_counts: [u64; 5],
    pub samples: Vec<String>,
}

fn hash_case(c: &IoCase) -> u64 {
    use std::hash::{Hash, Hasher};
    let mut h = std::collections::hash_map::DefaultHasher::new();
    c.hash(&mut h);
    h.finish()
}

impl IoStats {
    fn note(&mut self, c: &IoCase, flags: u64) {
        self.evaluations += 1;
        if flags & (iofl::PARTIAL | iofl::WRAP | iofl::ZERO_CAP) != 0 {
            self.nontrivial.insert(hash_case(c));
        }
        for i in 0..5 {
            if flags & (1 << i) != 0 {
                self.flag_counts[i] += 1;
            }
        }
        if let Some(op) = c.ops.first() {
            let name = format!("{op:?}");
            let name = name.split('(').next().unwrap().to_string();
            *self.by_op.entry(name).or_default() += 1;
        }
        let h = hash_case(c);
        if self.samples.len() < 3 || (h % 40009 == 3 && self.samples.len() < 10) {
            self.samples.push(c.render());
        }
    }
    fn merge(&mut self, o: IoStats) {
        self.evaluations += o.evaluations;
        self.nontrivial.extend(o.nontrivial);
        for (k, v) in o.by_op {
            *self.by_op.entry(k).or_default() += v;
        }
        for i in 0..5 {
            self.flag_counts[i] += o.flag_counts[i];
        }
        self.samples.extend(o.samples);
    }
}

pub fn shrink_io(case: &IoCase) -> (IoCase, String) {
    let mut best = case.clone();
    let mut msg = match run_io_case(&best) {
        Err(m) => m,
        Ok(_) => return (best, "(did not reproduce)".into()),
    };
    loop {
        let mut cands = Vec::new();
        for j in (0..best.ops.len()).rev() {
            let mut c = best.clone();
            c.ops.remove(j);
            cands.push(c);
        }
        if best.len > 0 {
            cands.push(IoCase { len: best.len - 1, ..best.clone() });
        }
        if best.start > 0 {
            cands.push(IoCase { start: best.start - 1, ..best.clone() });
        }
        if best.route != 0 {
            cands.push(IoCase { route: 0, ..best.clone() });
        }
        let mut progressed = false;
        for c in cands {
            if let Err(m) = run_io_case(&c) {
                best = c;
                msg = m;
                progressed = true;
                break;
            }
        }
        if !progressed {
            return (best, msg);
        }
    }
}

pub fn run_io(apis: &[Api], thorough: bool, seed: u64, threads: usize, prop_cases: u32, max_ops: usize) -> (IoStats, IoStats, Option<(IoCase, String, &'static str)>) {
    // enumerative part
    let caps: Vec<usize> = (0..=8).collect();
    let mut units = Vec::new();
    for api in apis {
        for &n in &caps {
            if n == 0 {
                units.push((*api, 0, 0, 0));
            } else {
                for len in 0..=n {
                    for start in 0..n {
                        units.push((*api, n, start, len));
                    }
                }
            }
        }
    }
    for api in apis {
        for &n in &BIG_IO_CAPS {
            for start in [0, 1, n / 2, n - 1] {
                for len in [0, 1, 63, 64, 65, n / 2, n / 2 + 1, 4095, 4096, 4097, n.saturating_sub(4097), n.saturating_sub(65), n - 1, n] {
                    if len > n {
                        continue;
                    }
                    units.push((*api, n, start, len));
                }
            }
        }
    }
    let next = AtomicUsize::new(0);
    let fail_at = AtomicUsize::new(usize::MAX);
    let found: Mutex<Vec<((usize, usize), IoCase, String)>> = Mutex::new(Vec::new());
    let total = Mutex::new(IoStats::default());
    std::thread::scope(|s| {
        for _ in 0..threads {
            s.spawn(|| {
                let mut st = IoStats::default();
                loop {
                    let u = next.fetch_add(1, Ordering::SeqCst);
                    if u >= units.len() || u > fail_at.load(Ordering::SeqCst) {
                        break;
                    }
                    let (api, n, start, len) = units[u];
                    for (i, c) in enum_cases(n, start, len, api, thorough).iter().enumerate() {
                        crate::watch::tick();
                        match run_io_case(c) {
                            Ok(f) => st.note(c, f),
                            Err(m) => {
                                fail_at.fetch_min(u, Ordering::SeqCst);
                                found.lock().unwrap().push(((u, i), c.clone(), m));
                                break;
                            }
                        }
                    }
                }
                total.lock().unwrap().merge(st);
            });
        }
    });
    let mut f = found.into_inner().unwrap();
    f.sort_by_key(|x| x.0);
    let enum_stats = total.into_inner().unwrap();
    if let Some((_, c, m)) = f.into_iter().next() {
        return (enum_stats, IoStats::default(), Some((c, m, "enumerative")));
    }
    // proptest histories
    use proptest::test_runner::{Config, RngAlgorithm, RngSeed, TestCaseError, TestError, TestRng, TestRunner};
    let found: Mutex<Vec<(usize, IoCase, String)>> = Mutex::new(Vec::new());
    let total = Mutex::new(IoStats::default());
    std::thread::scope(|s| {
        for t in 0..threads {
            let (found, total) = (&found, &total);
            s.spawn(move || {
                let api = apis[t % apis.len()];
                let mut sb = [0u8; 32];
                sb[..8].copy_from_slice(&seed.to_le_bytes());
                sb[8..16].copy_from_slice(&(t as u64 + 1000).to_le_bytes());
                let cfg = Config { cases: prop_cases / threads as u32 + 1, failure_persistence: None, max_shrink_iters: 20000, rng_seed: RngSeed::Fixed(seed), ..Config::default() };
                let mut runner = TestRunner::new_with_rng(cfg, TestRng::from_seed(RngAlgorithm::ChaCha, &sb));
                let st = std::cell::RefCell::new(IoStats::default());
                let failed = std::cell::Cell::new(false);
                let res = runner.run(&io_case_strategy(api, max_ops), |c| match { crate::watch::tick(); run_io_case(&c) } {
                    Ok(f) => {
                        if !failed.get() {
                            st.borrow_mut().note(&c, f);
                        }
                        Ok(())
                    }
                    Err(m) => {
                        failed.set(true);
                        Err(TestCaseError::fail(m))
                    }
                });
                if let Err(TestError::Fail(r, c)) = res {
                    found.lock().unwrap().push((t, c, r.message().to_string()));
                }
                total.lock().unwrap().merge(st.into_inner());
            });
        }
    });
    let mut f = found.into_inner().unwrap();
    f.sort_by_key(|x| x.0);
    (enum_stats, total.into_inner().unwrap(), f.into_iter().next().map(|(_, c, m)| (c, m, "proptest")))
}
