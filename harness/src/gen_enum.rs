//! Enumerative (small-scope exhaustive) generators: for one layout unit (N, start, len) each
//! function lists every case of the property's stated space, smallest first (DESIGN 2.3/1).

use crate::case::*;
use crate::tracked::FaultKind;

pub fn idxs(len: usize, upto: usize) -> Vec<Idx> {
    let mut v: Vec<Idx> = (0..=upto.max(len + 1) as u32).map(Idx::At).collect();
    v.push(Idx::Max(0));
    v
}

pub fn all_scripts(maxlen: usize) -> Vec<Vec<Step>> {
    let mut out = vec![vec![]];
    let mut cur: Vec<Vec<Step>> = vec![vec![]];
    for _ in 0..maxlen {
        let mut next = Vec::new();
        for s in &cur {
            for st in [Step::Next, Step::NextBack] {
                let mut t = s.clone();
                t.push(st);
                next.push(t);
            }
        }
        out.extend(next.iter().cloned());
        cur = next;
    }
    out
}

pub fn scripts_of_len(l: usize) -> Vec<Vec<Step>> {
    let mut cur: Vec<Vec<Step>> = vec![vec![]];
    for _ in 0..l {
        let mut next = Vec::new();
        for s in &cur {
            for st in [Step::Next, Step::NextBack] {
                let mut t = s.clone();
                t.push(st);
                next.push(t);
            }
        }
        cur = next;
    }
    cur
}

/// Every spelling of the valid range a..b on a buffer of length len.
pub fn spellings(a: usize, b: usize, len: usize) -> Vec<RangeSpec> {
    let (a32, b32) = (a as u32, b as u32);
    let mut starts = vec![Bnd::Inc(Idx::At(a32))];
    if a == 0 {
        starts.push(Bnd::Unb);
    }
    if a >= 1 {
        starts.push(Bnd::Exc(Idx::At(a32 - 1)));
    }
    let mut ends = vec![Bnd::Exc(Idx::At(b32))];
    if b == len {
        ends.push(Bnd::Unb);
    }
    if b >= 1 {
        ends.push(Bnd::Inc(Idx::At(b32 - 1)));
    }
    let mut out = Vec::new();
    for s in &starts {
        for e in &ends {
            let has_native = !matches!(s, Bnd::Exc(_));
            if has_native {
                out.push(RangeSpec { start: *s, end: *e, native: true });
            }
            out.push(RangeSpec { start: *s, end: *e, native: false });
        }
    }
    out
}

pub fn canonical(a: usize, b: usize) -> RangeSpec {
    RangeSpec { start: Bnd::Inc(Idx::At(a as u32)), end: Bnd::Exc(Idx::At(b as u32)), native: true }
}

/// Every (start bound, end bound) combination over the given index values.
pub fn all_bound_pairs(vals: &[Idx]) -> Vec<RangeSpec> {
    let mut bs = vec![Bnd::Unb];
    for v in vals {
        bs.push(Bnd::Inc(*v));
        bs.push(Bnd::Exc(*v));
    }
    let mut out = Vec::new();
    for s in &bs {
        for e in &bs {
            let has_native = !matches!(s, Bnd::Exc(_));
            if has_native {
                out.push(RangeSpec { start: *s, end: *e, native: true });
            }
            out.push(RangeSpec { start: *s, end: *e, native: false });
        }
    }
    out
}

pub const HINTS: &[Hint] = &[Hint::Exact, Hint::Low, Hint::Zero];

/// size_hint shapes including loose upper bounds relative to the capacity
pub fn hints_for(n: usize) -> Vec<Hint> {
    let n = n as u32;
    vec![Hint::Exact, Hint::Low, Hint::Zero, Hint::Unbounded, Hint::Over(1), Hint::Over(n), Hint::Over(2 * n), Hint::Over(3 * n + 1)]
}

fn base(n: usize, start: usize, len: usize, ops: Vec<Op>) -> Case {
    Case::simple(n, start, len, ops)
}

/// Every mutating entry point with every argument class (the C01 single-step space).
/// `wide`: index arguments range over 0..=N+1 instead of 0..=len+1, and ranges over every bound
/// combination (the C11 space).
pub fn mutating_ops(n: usize, len: usize, wide: bool) -> Vec<Op> {
    let mut ops = vec![
        Op::PushBack,
        Op::PushFront,
        Op::TryPushBack,
        Op::TryPushFront,
        Op::PopBack,
        Op::PopFront,
        Op::Clear,
        Op::Fill,
        Op::FillWith,
        Op::FillSpare,
        Op::FillSpareWith,
        Op::MakeContiguous,
    ];
    let ix = idxs(len, if wide { n + 1 } else { len + 1 });
    for i in &ix {
        ops.push(Op::Remove(*i));
        ops.push(Op::SwapRemoveBack(*i));
        ops.push(Op::SwapRemoveFront(*i));
        ops.push(Op::TruncateBack(*i));
        ops.push(Op::TruncateFront(*i));
        for j in &ix {
            ops.push(Op::Swap(*i, *j));
        }
        for a in ALL_ACC {
            ops.push(Op::Set(*a, *i));
            ops.push(Op::Mutate(*a, *i));
        }
    }
    for m in 0..=(2 * n + 1) as u32 {
        for h in hints_for(n) {
            ops.push(Op::Extend(m, h));
        }
        ops.push(Op::ExtendFromSlice(m));
        ops.push(Op::ExtendPairs(m, Hint::Exact));
        ops.push(Op::ExtendPairs(m, Hint::Low));
    }
    if n == 3 || n == 8 {
        // bulk arguments far beyond any plausible chunking threshold
        for m in [4095u32, 4096, 4097] {
            ops.push(Op::Extend(m, Hint::Exact));
            ops.push(Op::ExtendFromSlice(m));
        }
    }
    if wide {
        for r in all_bound_pairs(&ix) {
            ops.push(Op::Drain(r, vec![], End::Drop));
        }
    } else {
        for a in 0..=len {
            for b in a..=len {
                ops.push(Op::Drain(canonical(a, b), vec![], End::Drop));
            }
        }
        // bounds that answer differently from call to call (every reading must leave a valid buffer)
        for a in 0..=len {
            for b in a..=len {
                for mode in 0..3u8 {
                    for which in 0..3u8 {
                        ops.push(Op::ShiftyRange(canonical(a, b), mode, which));
                    }
                }
            }
        }
        ops.push(Op::ShiftyRange(canonical(len + 1, len + 2), 0, 0));
        ops.push(Op::ShiftyRange(canonical(0, len + 1), 1, 0));
        // a few out-of-range ones too (documented panics are part of the semantics)
        ops.push(Op::Drain(canonical(0, len + 1), vec![], End::Drop));
        ops.push(Op::Drain(canonical(len + 1, len + 1), vec![], End::Drop));
        if len >= 1 {
            ops.push(Op::Drain(canonical(1, 0), vec![], End::Drop));
        }
    }
    if n > 0 {
        for s in 0..n {
            for l in 0..=n {
                ops.push(Op::CloneFrom(s as u32, l as u32));
            }
        }
    } else {
        ops.push(Op::CloneFrom(0, 0));
    }
    ops
}

pub fn readonly_ops(n: usize, len: usize, wide: bool) -> Vec<Op> {
    let mut ops = vec![Op::Views, Op::ToVec, Op::Dbg(false), Op::Dbg(true), Op::CloneBuf(false), Op::EqSlice(None)];
    let ix = idxs(len, if wide { n + 1 } else { len + 1 });
    for i in &ix {
        ops.push(Op::Read(*i));
        ops.push(Op::EqSlice(Some(*i)));
    }
    ops.push(Op::EqSlice(Some(Idx::Past(1))));
    // comparisons against every layout of an equal / shorter / longer / differing partner
    if n > 0 {
        for s in 0..n {
            for l in [len.saturating_sub(1), len, (len + 1).min(n)] {
                ops.push(Op::Cmp(s as u32, l as u32, None));
            }
            for d in 0..len {
                ops.push(Op::Cmp(s as u32, len as u32, Some(Idx::At(d as u32))));
            }
        }
    } else {
        ops.push(Op::Cmp(0, 0, None));
    }
    // partners of a different capacity (every front position, equal contents where they fit)
    for m in 0..=8usize {
        if m == n {
            continue;
        }
        for s in 0..m.max(1) {
            ops.push(Op::CmpCap(m as u32, s as u32, len.min(m) as u32, None));
            if len > 0 && m > 0 {
                ops.push(Op::CmpCap(m as u32, s as u32, len.min(m) as u32, Some(Idx::At((s % len.max(1)) as u32))));
            }
        }
    }
    if wide {
        for r in all_bound_pairs(&ix) {
            ops.push(Op::IterScript(IterKind::Range(r), vec![]));
            ops.push(Op::IterScript(IterKind::RangeMut(r), vec![]));
        }
    }
    ops
}

/// Follow-up operations that expose internal state a plain read-back cannot see (for example a
/// wrong front position while the buffer is empty).
pub fn probes() -> Vec<Vec<Op>> {
    vec![
        vec![Op::PushBack, Op::PushBack],
        vec![Op::PushFront, Op::PushFront],
        vec![Op::PopBack, Op::PushFront, Op::PushBack],
        vec![Op::PopFront, Op::PushBack, Op::PushFront],
        vec![Op::ExtendFromSlice(2), Op::PopFront],
        vec![Op::MakeContiguous, Op::PushBack],
        vec![Op::Drain(canonical(0, 1), vec![Step::NextBack], End::Drop), Op::PushFront],
        vec![Op::Remove(Idx::At(0)), Op::PushBack, Op::Remove(Idx::FromEnd(1))],
        vec![Op::TruncateFront(Idx::At(1)), Op::PushFront, Op::PushBack],
    ]
}

/// Value patterns with equal elements (see `Case::vals`): cases whose outcome depends on how ties are broken.
pub fn tie_cases(n: usize, start: usize, len: usize) -> Vec<Case> {
    let mut out = Vec::new();
    for pat in [1u8, 2, 3, 4] {
        for a in [Acc::IterMutMax, Acc::IterMutMin] {
            out.push(base(n, start, len, vec![Op::Set(a, Idx::At(0)), Op::Views]).with_vals(pat));
            out.push(base(n, start, len, vec![Op::Mutate(a, Idx::At(0)), Op::Views]).with_vals(pat));
        }
        out.push(base(n, start, len, vec![Op::Views]).with_vals(pat));
        out.push(base(n, start, len, vec![Op::IterScript(IterKind::Iter, vec![Step::Search])]).with_vals(pat));
        out.push(base(n, start, len, vec![Op::IterScript(IterKind::Iter, vec![Step::Next, Step::Search])]).with_vals(pat));
        out.push(base(n, start, len, vec![Op::IterScript(IterKind::Iter, vec![Step::NextBack, Step::Search])]).with_vals(pat));
        out.push(base(n, start, len, vec![Op::IterScript(IterKind::IterMut, vec![Step::Search])]).with_vals(pat));
        out.push(base(n, start, len, vec![Op::IterScript(IterKind::IterMut, vec![Step::Next, Step::Search])]).with_vals(pat));
        for a in 0..=len.min(3) {
            for b in (len.saturating_sub(2)).max(a)..=len {
                out.push(base(n, start, len, vec![Op::IterScript(IterKind::Range(canonical(a, b)), vec![Step::Search])]).with_vals(pat));
                out.push(base(n, start, len, vec![Op::IterScript(IterKind::RangeMut(canonical(a, b)), vec![Step::Search])]).with_vals(pat));
            }
        }
        out.push(base(n, start, len, vec![Op::Cmp(0, len as u32, None)]).with_vals(pat));
        out.push(base(n, start, len, vec![Op::EqSlice(None)]).with_vals(pat));
    }
    // a predicate that panics in the middle of a search: the iterator must stay a contiguous rest, and how much it
    // consumed must not depend on the layout
    for k in 0..=len as u16 {
        for back in [false, true] {
            out.push(base(n, start, len, vec![Op::IterScript(IterKind::Iter, vec![Step::PanicSearch(k, back), Step::Next, Step::NextBack])]));
            out.push(base(n, start, len, vec![Op::IterScript(IterKind::Iter, vec![Step::Next, Step::PanicSearch(k, back), Step::Fork])]));
            out.push(base(n, start, len, vec![Op::IterScript(IterKind::Range(canonical(len.min(1), len)), vec![Step::PanicSearch(k, back), Step::Next])]));
        }
    }
    out
}

pub fn c01(n: usize, start: usize, len: usize) -> Vec<Case> {
    let mut out: Vec<Case> = mutating_ops(n, len, false).into_iter().map(|op| base(n, start, len, vec![op])).collect();
    out.extend(tie_cases(n, start, len));
    // two cooperating steps: every mutator followed by every probe, for the smaller capacities
    if n <= 5 {
        for op in mutating_ops(n, len, false) {
            if matches!(op, Op::Set(..) | Op::Mutate(..) | Op::Swap(..)) {
                continue;
            }
            for p in probes() {
                let mut v = vec![op.clone()];
                v.extend(p);
                out.push(base(n, start, len, v));
            }
        }
    }
    out
}

pub fn c02(n: usize, start: usize, len: usize) -> Vec<Case> {
    let pushes = [Op::PushBack, Op::PushFront, Op::TryPushBack, Op::TryPushFront];
    let mut out = Vec::new();
    for (ri, route) in ALL_ROUTES.iter().enumerate() {
        for fill in ALL_FILLS {
            for p in &pushes {
                let mut c = base(n, start, len, vec![p.clone()]);
                c.route = *route;
                c.fill = *fill;
                c.ctor = ri as u8;
                out.push(c);
            }
        }
    }
    // pairs and triples of insertions, so that a full buffer is hit after wrapping
    for p in &pushes {
        for q in &pushes {
            out.push(base(n, start, len, vec![p.clone(), q.clone()]));
            for r in &pushes {
                out.push(base(n, start, len, vec![p.clone(), q.clone(), r.clone()]));
            }
        }
    }
    out
}

pub fn c03(n: usize, start: usize, len: usize, deep: bool) -> Vec<Case> {
    let mut out = c01(n, start, len);
    let lim = if deep { 7 } else { 6 };
    if n <= lim {
        for s in all_scripts(len + 1) {
            out.push(base(n, start, len, vec![Op::IntoIter(s)]));
        }
        for a in 0..=len {
            for b in a..=len {
                for s in all_scripts(b - a + 1) {
                    out.push(base(n, start, len, vec![Op::Drain(canonical(a, b), s, End::Drop)]));
                }
            }
        }
    }
    for a in 0..=len {
        for b in a..=len {
            for k in 0..=(b - a) as u16 {
                for t in [Step::Nth(k), Step::NthBack(k), Step::Skip(k), Step::StepBy(k)] {
                    out.push(base(n, start, len, vec![Op::Drain(canonical(a, b), vec![t], End::Drop)]));
                    out.push(base(n, start, len, vec![Op::Drain(canonical(a, b), vec![Step::NextBack, t, Step::Next], End::Drop)]));
                }
            }
            for t in [Step::Count, Step::Last, Step::Fold, Step::RevCollect, Step::RFold, Step::RevLast, Step::Via(0), Step::Via(1), Step::Via(2), Step::Via(3), Step::Via(4), Step::Via(5), Step::Via(6), Step::Via(7)] {
                out.push(base(n, start, len, vec![Op::Drain(canonical(a, b), vec![t], End::Drop)]));
            }
        }
    }
    for m in 0..=(2 * n + 1).min(crate::deq::FROM_ARRAY_MAX_M) as u32 {
        if n <= crate::deq::FROM_ARRAY_MAX_N {
            out.push(base(n, start, len, vec![Op::FromArray(m)]));
        }
        out.push(base(n, start, len, vec![Op::FromIter(m, Hint::Exact)]));
    }
    for op in [Op::CloneBuf(false), Op::CloneBuf(true), Op::ToVec, Op::DropBuf, Op::MoveBuf, Op::Views] {
        out.push(base(n, start, len, vec![op]));
    }
    for st in [Step::Count, Step::Last, Step::Fork] {
        out.push(base(n, start, len, vec![Op::IntoIter(vec![st])]));
        out.push(base(n, start, len, vec![Op::IntoIter(vec![Step::Next, st, Step::NextBack])]));
    }
    for k in 0..=(len + 1) as u16 {
        out.push(base(n, start, len, vec![Op::IntoIter(vec![Step::Nth(k)])]));
        out.push(base(n, start, len, vec![Op::IntoIter(vec![Step::NthBack(k)])]));
    }
    out
}

/// Base cases for C04 (the caller crosses them with fillings and routes).
pub fn c04_base(n: usize, start: usize, len: usize) -> Vec<Case> {
    let mut ops = mutating_ops(n, len, false);
    ops.extend(readonly_ops(n, len, false));
    for a in 0..=len {
        for b in a..=len {
            ops.push(Op::IterScript(IterKind::Range(canonical(a, b)), vec![]));
            ops.push(Op::IterScript(IterKind::RangeMut(canonical(a, b)), vec![Step::Dbg]));
            ops.push(Op::Drain(canonical(a, b), vec![Step::Dbg, Step::Next, Step::Dbg], End::Drop));
            ops.push(Op::Drain(canonical(a, b), vec![Step::NextBack, Step::Dbg], End::Drop));
            // consuming adaptors after a step from either end: a slot that was already moved out must not be read again
            for (pre, fin) in [(Step::NextBack, Step::Last), (Step::Next, Step::RevLast), (Step::NextBack, Step::Fold), (Step::Next, Step::RFold), (Step::NextBack, Step::Count),
                               (Step::NextBack, Step::Nth(0)), (Step::Next, Step::NthBack(0))] {
                ops.push(Op::Drain(canonical(a, b), vec![pre.clone(), fin.clone()], End::Drop));
                ops.push(Op::Drain(canonical(a, b), vec![pre.clone(), pre.clone(), fin], End::Drop));
            }
        }
    }
    for (pre, fin) in [(Step::NextBack, Step::Last), (Step::Next, Step::RevLast), (Step::NextBack, Step::Fold), (Step::Next, Step::RFold)] {
        ops.push(Op::IntoIter(vec![pre.clone(), fin.clone()]));
        ops.push(Op::IterScript(IterKind::Iter, vec![pre.clone(), fin.clone()]));
        ops.push(Op::IterScript(IterKind::IterMut, vec![pre, fin]));
    }
    ops.push(Op::IterScript(IterKind::Iter, vec![Step::Dbg, Step::Next, Step::Dbg, Step::NextBack, Step::Dbg]));
    ops.push(Op::IterScript(IterKind::IterMut, vec![Step::Dbg, Step::Next, Step::Dbg]));
    ops.push(Op::IntoIter(vec![Step::Dbg, Step::Next, Step::Dbg, Step::Fork]));
    ops.push(Op::CloneBuf(true));
    ops.push(Op::MoveBuf);
    ops.into_iter()
        .map(|op| {
            // a follow-up that reads everything back, so that a stale slot pulled into the
            // contents by the first op is walked by user code
            base(n, start, len, vec![op, Op::Views, Op::Cmp(0, n as u32, None)])
        })
        .chain(tie_cases(n, start, len))
        .collect()
}

/// Tail appended after a fault / leak to check that the buffer "behaves normally".
pub fn tail(salt: usize) -> Vec<Op> {
    let mut t = vec![
        Op::PushBack,
        Op::PushBack,
        Op::PushFront,
        Op::Views,
        Op::PopFront,
        Op::Remove(Idx::At(1)),
        Op::ExtendFromSlice(2),
        Op::TruncateBack(Idx::At(1)),
        Op::Extend(3, Hint::Exact),
        Op::Drain(canonical(0, 1), vec![Step::Next], End::Drop),
        Op::PopBack,
        Op::Fill,
    ];
    let k = salt % t.len();
    t.rotate_left(k);
    t
}

/// Operations that destroy elements (C05); each is expanded by the runner into one faulted
/// case per destructor call.
pub fn c05_base(n: usize, start: usize, len: usize) -> Vec<Case> {
    let mut ops: Vec<Op> = vec![Op::Clear, Op::Fill, Op::FillWith, Op::FillSpare, Op::DropBuf, Op::PushBack, Op::PushFront];
    for i in 0..=len as u32 {
        ops.push(Op::TruncateBack(Idx::At(i)));
        ops.push(Op::TruncateFront(Idx::At(i)));
    }
    for m in 0..=(2 * n + 1) as u32 {
        ops.push(Op::ExtendFromSlice(m));
        ops.push(Op::Extend(m, Hint::Exact));
        ops.push(Op::ExtendPairs(m, Hint::Exact));
        if n <= crate::deq::FROM_ARRAY_MAX_N && m as usize <= crate::deq::FROM_ARRAY_MAX_M {
            ops.push(Op::FromArray(m));
        }
        ops.push(Op::FromIter(m, Hint::Low));
    }
    if n > 0 {
        for s in 0..n {
            for l in 0..=n {
                ops.push(Op::CloneFrom(s as u32, l as u32));
            }
        }
    }
    for a in 0..=len {
        for b in a..=len {
            let max = (b - a).min(3);
            for l in 0..=max {
                for s in scripts_of_len(l) {
                    ops.push(Op::Drain(canonical(a, b), s, End::Drop));
                }
            }
        }
    }
    for l in 0..=len.min(3) {
        for s in scripts_of_len(l) {
            ops.push(Op::IntoIter(s));
        }
    }
    // consumption through adaptors that destroy elements inside the iterator machinery
    // (count, last, nth, skip, step_by drop what they pass over)
    for pre in [vec![], vec![Step::Next], vec![Step::NextBack]] {
        for t in [Step::Count, Step::Last, Step::Nth(1), Step::Nth(2), Step::NthBack(1), Step::NthBack(2), Step::Skip(1), Step::Skip(2), Step::StepBy(1), Step::RevLast, Step::Fold, Step::RFold, Step::FindMid, Step::RFindMid, Step::Via(0), Step::Via(6)] {
            let mut s = pre.clone();
            s.push(t);
            ops.push(Op::IntoIter(s.clone()));
            ops.push(Op::Drain(RangeSpec::full(), s.clone(), End::Drop));
            if len >= 2 {
                ops.push(Op::Drain(canonical(1, len), s, End::Drop));
            }
        }
    }
    let mut out = Vec::new();
    for (k, op) in ops.into_iter().enumerate() {
        let mut v = vec![op];
        v.extend(tail(k));
        out.push(base(n, start, len, v));
    }
    // the final drop of the buffer as the faulted operation
    out.push(base(n, start, len, vec![]));
    out
}

/// Operations that run user code (C06) with the kinds of user code they run.
pub fn c06_base(n: usize, start: usize, len: usize) -> Vec<(Case, Vec<FaultKind>)> {
    let mut ops: Vec<(Op, Vec<FaultKind>)> = vec![
        (Op::Fill, vec![FaultKind::Clone]),
        (Op::FillSpare, vec![FaultKind::Clone]),
        (Op::FillWith, vec![FaultKind::Make]),
        (Op::FillSpareWith, vec![FaultKind::Make]),
        (Op::CloneBuf(false), vec![FaultKind::Clone]),
        (Op::ToVec, vec![FaultKind::Clone]),
        (Op::Views, vec![FaultKind::Clone]),
        (Op::EqSlice(None), vec![FaultKind::Eq]),
        (Op::EqSlice(Some(Idx::FromEnd(1))), vec![FaultKind::Eq]),
    ];
    for m in 0..=(2 * n + 1) as u32 {
        ops.push((Op::ExtendFromSlice(m), vec![FaultKind::Clone]));
        ops.push((Op::Extend(m, Hint::Exact), vec![FaultKind::IterStep]));
        ops.push((Op::Extend(m, Hint::Zero), vec![FaultKind::IterStep]));
        ops.push((Op::FromIter(m, Hint::Exact), vec![FaultKind::IterStep]));
        ops.push((Op::ExtendPairs(m, Hint::Exact), vec![FaultKind::IterStep]));
        ops.push((Op::Unzip(m, Hint::Exact), vec![FaultKind::IterStep]));
    }
    // closures handed to the internal-iteration methods of the owning iterators (fold / rfold / for_each / position ...):
    // a panic in the closure unwinds through the iterator, which must neither lose nor repeat an element
    for a in 0..=len {
        for b in a..=len {
            if b - a < 1 {
                continue;
            }
            for script in [vec![Step::Fold], vec![Step::RFold], vec![Step::Next, Step::RFold], vec![Step::NextBack, Step::Fold], vec![Step::FindMid], vec![Step::RFindMid],
                           vec![Step::NextBack, Step::RFold], vec![Step::Next, Step::Fold]] {
                ops.push((Op::Drain(canonical(a, b), script, End::Drop), vec![FaultKind::Make]));
            }
            for f in 0..8u8 {
                ops.push((Op::Drain(canonical(a, b), vec![Step::Via(f)], End::Drop), vec![FaultKind::Make]));
                if b - a >= 2 {
                    ops.push((Op::Drain(canonical(a, b), vec![if f % 2 == 0 { Step::NextBack } else { Step::Next }, Step::Via(f)], End::Drop), vec![FaultKind::Make]));
                }
            }
        }
    }
    for script in [vec![Step::Fold], vec![Step::RFold], vec![Step::Next, Step::RFold], vec![Step::NextBack, Step::Fold], vec![Step::FindMid], vec![Step::RFindMid]] {
        ops.push((Op::IntoIter(script), vec![FaultKind::Make]));
    }
    for f in 0..8u8 {
        ops.push((Op::IntoIter(vec![Step::Via(f)]), vec![FaultKind::Make]));
        ops.push((Op::IntoIter(vec![if f % 2 == 0 { Step::NextBack } else { Step::Next }, Step::Via(f)]), vec![FaultKind::Make]));
    }
    // cloning the owning iterator (fresh, and after steps from either end) with a panicking Clone
    for script in [vec![Step::Fork], vec![Step::Next, Step::Fork], vec![Step::NextBack, Step::Fork], vec![Step::Next, Step::NextBack, Step::Fork, Step::Next]] {
        ops.push((Op::IntoIter(script), vec![FaultKind::Clone]));
    }
    if n > 0 {
        for s in 0..n {
            for l in 0..=n {
                ops.push((Op::CloneFrom(s as u32, l as u32), vec![FaultKind::Clone]));
            }
            ops.push((Op::Cmp(s as u32, len as u32, None), vec![FaultKind::Eq]));
            if len > 0 {
                ops.push((Op::Cmp(s as u32, len as u32, Some(Idx::FromEnd(1))), vec![FaultKind::Eq]));
            }
        }
    }
    ops.into_iter()
        .enumerate()
        .map(|(k, (op, kinds))| {
            let mut v = vec![op];
            v.extend(tail(k));
            (base(n, start, len, v), kinds)
        })
        .collect()
}

pub fn c07(n: usize, start: usize, len: usize) -> Vec<Case> {
    let mut ops = vec![Op::Views, Op::MakeContiguous, Op::ToVec, Op::Dbg(false), Op::Dbg(true)];
    for i in idxs(len, len + 1) {
        ops.push(Op::Read(i));
        for a in ALL_ACC {
            ops.push(Op::Set(*a, i));
            ops.push(Op::Mutate(*a, i));
        }
    }
    for a in 0..=len {
        for b in a..=len {
            for sp in spellings(a, b, len) {
                ops.push(Op::IterScript(IterKind::Range(sp), vec![]));
                ops.push(Op::IterScript(IterKind::RangeMut(sp), vec![]));
            }
        }
    }
    let mut out: Vec<Case> = Vec::new();
    for op in ops {
        // every write is followed by a full read-back through all views
        let follow = !matches!(op, Op::Views);
        let mut v = vec![op];
        if follow {
            v.push(Op::Views);
        }
        out.push(base(n, start, len, v));
    }
    // writes after make_contiguous and make_contiguous after writes
    for a in ALL_ACC {
        out.push(base(n, start, len, vec![Op::MakeContiguous, Op::Set(*a, Idx::FromEnd(1)), Op::Views]));
    }
    out.extend(tie_cases(n, start, len));
    out
}

pub fn c08(n: usize, start: usize, len: usize) -> Vec<Case> {
    let mut out = Vec::new();
    let push = |k: IterKind, sel: usize, out: &mut Vec<Case>| {
        for s in scripts_of_len(sel + 2) {
            out.push(base(n, start, len, vec![Op::IterScript(k, s)]));
        }
    };
    for k in [IterKind::Iter, IterKind::RefIntoIter, IterKind::IterMut] {
        push(k, len, &mut out);
    }
    push(IterKind::DefaultIter, 0, &mut out);
    push(IterKind::DefaultIterMut, 0, &mut out);
    for a in 0..=len {
        for b in a..=len {
            let sps = spellings(a, b, len);
            for (i, sp) in sps.iter().enumerate() {
                if i < 2 {
                    push(IterKind::Range(*sp), b - a, &mut out);
                    push(IterKind::RangeMut(*sp), b - a, &mut out);
                } else {
                    // the remaining spellings select the same elements: one mixed script each
                    let s: Vec<Step> = (0..b - a + 2).map(|j| if (j + i) % 2 == 0 { Step::Next } else { Step::NextBack }).collect();
                    out.push(base(n, start, len, vec![Op::IterScript(IterKind::Range(*sp), s.clone())]));
                    out.push(base(n, start, len, vec![Op::IterScript(IterKind::RangeMut(*sp), s)]));
                }
            }
        }
    }
    for s in scripts_of_len(len + 2) {
        out.push(base(n, start, len, vec![Op::IntoIter(s)]));
    }
    // the iterator methods that have default implementations today (a hand-written override must
    // stay correct): nth, nth_back, count, last, fold, rev at every offset
    for kind in [IterKind::Iter, IterKind::IterMut, IterKind::Range(RangeSpec::full()), IterKind::RangeMut(RangeSpec::full())] {
        for k in 0..=(len + 1) as u16 {
            for pre in [vec![], vec![Step::Next], vec![Step::NextBack], vec![Step::Next, Step::NextBack]] {
                for tail in [vec![Step::Nth(k), Step::Next, Step::NextBack], vec![Step::NthBack(k), Step::NextBack, Step::Next], vec![Step::Nth(k), Step::NthBack(k)]] {
                    let mut s = pre.clone();
                    s.extend(tail);
                    out.push(base(n, start, len, vec![Op::IterScript(kind, s)]));
                }
            }
        }
        for pre in [vec![], vec![Step::Next], vec![Step::NextBack], vec![Step::Next, Step::NextBack, Step::Next]] {
            for t in [Step::Count, Step::Last, Step::Fold, Step::RevCollect, Step::Dbg, Step::RFold, Step::RevLast, Step::Search, Step::FindMid, Step::RFindMid, Step::Via(0), Step::Via(1), Step::Via(2), Step::Via(3), Step::Via(4), Step::Via(5), Step::Via(6), Step::Via(7)] {
                let mut s = pre.clone();
                s.push(t);
                s.push(Step::Next);
                s.push(Step::NextBack);
                out.push(base(n, start, len, vec![Op::IterScript(kind, s)]));
            }
        }
    }
    for k in 0..=(len + 1) as u16 {
        for pre in [vec![], vec![Step::Next], vec![Step::NextBack]] {
            for t in [Step::Nth(k), Step::NthBack(k)] {
                let mut s = pre.clone();
                s.push(t);
                s.push(Step::Next);
                s.push(Step::NextBack);
                out.push(base(n, start, len, vec![Op::IntoIter(s)]));
            }
        }
    }
    for t in [Step::FindMid, Step::RFindMid] {
        out.push(base(n, start, len, vec![Op::IntoIter(vec![t, Step::Next, Step::NextBack])]));
        out.push(base(n, start, len, vec![Op::IntoIter(vec![Step::NextBack, t, Step::Next])]));
    }
    for t in [Step::Count, Step::Last, Step::Fold, Step::RevCollect, Step::Dbg, Step::RFold, Step::RevLast, Step::Via(0), Step::Via(1), Step::Via(2), Step::Via(3), Step::Via(4), Step::Via(5), Step::Via(6), Step::Via(7)] {
        out.push(base(n, start, len, vec![Op::IntoIter(vec![Step::Next, t])]));
        out.push(base(n, start, len, vec![Op::IntoIter(vec![Step::NextBack, t])]));
    }
    // clone / len at every point of a script
    for s in scripts_of_len(len.min(4)) {
        for at in 0..=s.len() {
            let mut t = s.clone();
            t.insert(at, Step::Fork);
            out.push(base(n, start, len, vec![Op::IterScript(IterKind::Iter, t.clone())]));
            out.push(base(n, start, len, vec![Op::IntoIter(t)]));
        }
    }
    out.extend(tie_cases(n, start, len));
    out
}

pub fn c09(n: usize, start: usize, len: usize, end: End) -> Vec<Case> {
    let mut out = Vec::new();
    for a in 0..=len {
        for b in a..=len {
            let sps = spellings(a, b, len);
            for (i, sp) in sps.iter().enumerate() {
                if i == 0 {
                    for s in all_scripts(b - a + 1) {
                        let mut ops = vec![Op::Drain(*sp, s, end)];
                        if end == End::Forget {
                            ops.extend(tail(a * 7 + b));
                        }
                        out.push(base(n, start, len, ops));
                    }
                } else {
                    let s: Vec<Step> = (0..(b - a + 1) / 2 + (i % 2)).map(|j| if (j + i) % 2 == 0 { Step::Next } else { Step::NextBack }).collect();
                    let mut ops = vec![Op::Drain(*sp, s, end)];
                    if end == End::Forget {
                        ops.extend(tail(i));
                    }
                    out.push(base(n, start, len, ops));
                }
            }
            if end == End::Forget {
                // forgetting after the skipping consumers, including skips that run past either end of what is left
                for pre in [vec![], vec![Step::Next], vec![Step::NextBack]] {
                    for k in 0..=(b - a + 1) as u16 {
                        for t in [vec![Step::Nth(k)], vec![Step::NthBack(k)], vec![Step::Nth(k), Step::NextBack], vec![Step::NthBack(k), Step::Next]] {
                            let mut s = pre.clone();
                            s.extend(t);
                            let mut ops = vec![Op::Drain(canonical(a, b), s, End::Forget)];
                            ops.extend(tail(a + b + k as usize));
                            out.push(base(n, start, len, ops));
                        }
                    }
                    for t in [Step::FindMid, Step::RFindMid] {
                        let mut s = pre.clone();
                        s.push(t);
                        let mut ops = vec![Op::Drain(canonical(a, b), s, End::Forget)];
                        ops.extend(tail(a + 2 * b));
                        out.push(base(n, start, len, ops));
                    }
                }
            }
            if end == End::Forget {
                // formatting the drain (also into a sink that gives up or panics half way) before it is leaked
                for s in [vec![Step::Dbg], vec![Step::Next, Step::Dbg], vec![Step::NextBack, Step::Dbg], vec![Step::Next, Step::NextBack, Step::Dbg]] {
                    let mut ops = vec![Op::Drain(canonical(a, b), s, End::Forget)];
                    ops.extend(tail(a + 2 * b));
                    out.push(base(n, start, len, ops));
                }
            }
            if end == End::Drop {
                out.push(base(n, start, len, vec![Op::Drain(canonical(a, b), vec![Step::Dbg, Step::Next, Step::Dbg, Step::NextBack, Step::Dbg], End::Drop)]));
                // the adaptor-style consumers (default implementations today): nth, nth_back, count,
                // last, fold/collect, rev, skip, step_by - alone and after a step from either end
                for pre in [vec![], vec![Step::Next], vec![Step::NextBack]] {
                    for k in 0..=(b - a + 1) as u16 {
                        for t in [vec![Step::Nth(k)], vec![Step::NthBack(k)], vec![Step::Nth(k), Step::NextBack], vec![Step::NthBack(k), Step::Next], vec![Step::Skip(k)], vec![Step::StepBy(k)]] {
                            let mut s = pre.clone();
                            s.extend(t);
                            out.push(base(n, start, len, vec![Op::Drain(canonical(a, b), s, End::Drop)]));
                        }
                    }
                    for t in [Step::FindMid, Step::RFindMid] {
                        let mut s = pre.clone();
                        s.push(t);
                        s.push(Step::Next);
                        s.push(Step::NextBack);
                        out.push(base(n, start, len, vec![Op::Drain(canonical(a, b), s, End::Drop)]));
                    }
                    for t in [Step::Count, Step::Last, Step::Fold, Step::RevCollect, Step::RFold, Step::RevLast, Step::Via(0), Step::Via(1), Step::Via(2), Step::Via(3), Step::Via(4), Step::Via(5), Step::Via(6), Step::Via(7)] {
                        let mut s = pre.clone();
                        s.push(t);
                        out.push(base(n, start, len, vec![Op::Drain(canonical(a, b), s, End::Drop)]));
                    }
                }
            }
        }
    }
    out
}

pub fn c11(n: usize, start: usize, len: usize) -> Vec<Case> {
    let mut ops = mutating_ops(n, len, true);
    ops.extend(readonly_ops(n, len, true));
    ops.push(Op::IterScript(IterKind::Iter, vec![]));
    ops.push(Op::IterScript(IterKind::IterMut, vec![]));
    ops.push(Op::IntoIter(vec![]));
    for st in [Step::Nth(255), Step::NthBack(255), Step::Skip(255), Step::StepBy(255), Step::Nth(u16::MAX), Step::Skip(u16::MAX), Step::Nth(len as u16), Step::NthBack(len as u16 + 1)] {
        for k in [IterKind::Iter, IterKind::IterMut, IterKind::Range(canonical(0, len)), IterKind::RangeMut(canonical(0, len))] {
            ops.push(Op::IterScript(k, vec![st.clone(), Step::Next]));
        }
        ops.push(Op::IntoIter(vec![st.clone(), Step::Next]));
        ops.push(Op::Drain(canonical(0, len), vec![st.clone(), Step::Next], End::Drop));
    }
    ops.push(Op::DropBuf);
    ops.push(Op::MoveBuf);
    ops.push(Op::FromIter(3, Hint::Exact));
    ops.into_iter().map(|op| base(n, start, len, vec![op])).collect()
}

pub fn c12(n: usize, start: usize, len: usize) -> Vec<Case> {
    let mut out = Vec::new();
    for ctor in 0..3u8 {
        for fill in [Fill::Leave, Fill::Ones] {
            let mut ops: Vec<Op> = vec![Op::CloneBuf(false), Op::CloneBuf(true), Op::ToVec, Op::Views];
            ops.push(Op::IntoIter(vec![Step::Count]));
            ops.push(Op::IntoIter(vec![Step::RevCollect]));
            for m in 0..=(2 * n + 1) as u32 {
                if n <= crate::deq::FROM_ARRAY_MAX_N && m as usize <= crate::deq::FROM_ARRAY_MAX_M {
                    ops.push(Op::FromArray(m));
                }
                for h in hints_for(n) {
                    ops.push(Op::FromIter(m, h));
                }
                ops.push(Op::Unzip(m, Hint::Exact));
                ops.push(Op::Unzip(m, Hint::Low));
            }
            for op in ops {
                let follow = vec![op, Op::Views, Op::PushBack, Op::PopFront, Op::CloneBuf(true), Op::Views];
                let mut c = base(n, start, len, follow);
                c.ctor = ctor;
                c.fill = fill;
                out.push(c);
            }
        }
    }
    if n > 0 {
        for s in 0..n {
            for l in 0..=n {
                out.push(base(n, start, len, vec![Op::CloneFrom(s as u32, l as u32), Op::Views]));
            }
        }
    } else {
        out.push(base(n, start, len, vec![Op::CloneFrom(0, 0), Op::Views]));
    }
    out
}

pub fn c20(n: usize, start: usize, len: usize) -> Vec<Case> {
    let mut ops = vec![
        Op::PushBack,
        Op::PushFront,
        Op::TryPushBack,
        Op::TryPushFront,
        Op::PopBack,
        Op::PopFront,
        Op::Clear,
        Op::MakeContiguous,
        Op::Views,
    ];
    for i in idxs(len, len + 1) {
        ops.push(Op::Remove(i));
        ops.push(Op::SwapRemoveBack(i));
        ops.push(Op::SwapRemoveFront(i));
        ops.push(Op::TruncateBack(i));
        ops.push(Op::TruncateFront(i));
        ops.push(Op::Read(i));
        for j in idxs(len, len + 1) {
            ops.push(Op::Swap(i, j));
        }
        for a in ALL_ACC {
            if *a != Acc::MakeContiguous {
                ops.push(Op::Set(*a, i));
                ops.push(Op::Mutate(*a, i));
            }
        }
    }
    for a in 0..=len {
        for b in a..=len {
            ops.push(Op::Drain(canonical(a, b), vec![], End::Drop));
            if b > a {
                ops.push(Op::Drain(canonical(a, b), vec![Step::Next], End::Drop));
                ops.push(Op::Drain(canonical(a, b), vec![Step::NextBack], End::Drop));
            }
        }
    }
    let mut out: Vec<Case> = ops.into_iter().map(|op| base(n, start, len, vec![op])).collect();
    // the same layouts reached by other routes (different physical positions for N where the
    // route cannot hit `start` exactly are recorded as observed)
    for r in [Route::PushFront, Route::Truncate] {
        let mut c = base(n, start, len, vec![Op::MakeContiguous]);
        c.route = r;
        out.push(c);
    }
    out
}


// ------------------------------------------------------------------------------------------
// sparse space for the larger capacities: every operation at the boundary positions of one layout

/// Positions worth trying in a buffer of `len` elements whose front sits at physical index `start`:
/// both ends, the middle, the logical index where the contents wrap around the end of the array, and the
/// neighbourhoods of 32 and 64 (thresholds an implementation might special-case).
pub fn boundary_positions(n: usize, start: usize, len: usize) -> Vec<usize> {
    let mut v: Vec<usize> = vec![0, 1, 2, len / 2, len.saturating_sub(2), len.saturating_sub(1), len, len + 1, 7, 8, 9, 15, 16, 17, 31, 32, 33, 63, 64, 65, 1023, 1024, 1025];
    if start > 0 && n > start {
        let w = n - start;
        v.extend([w.saturating_sub(1), w, w + 1]);
    }
    v.retain(|p| *p <= len + 1);
    v.sort_unstable();
    v.dedup();
    v
}

pub fn large_units(n: usize) -> Vec<(usize, usize, usize)> {
    let mut starts = vec![0, 1, n / 2, n.saturating_sub(2), n.saturating_sub(1)];
    starts.retain(|s| *s < n.max(1));
    starts.sort_unstable();
    starts.dedup();
    let mut lens = vec![0, 1, 2, 3, 4, 5, 8, 15, 16, 17, n / 64, n / 64 + 1, n / 8, n / 2, n.saturating_sub(2), n.saturating_sub(1), n, 31, 32, 33, 63, 64, 65, 1025, 1200];
    lens.retain(|l| *l <= n);
    lens.sort_unstable();
    lens.dedup();
    let mut out = Vec::new();
    for l in &lens {
        for s in &starts {
            out.push((n, *s, *l));
        }
    }
    out
}

pub fn large(n: usize, start: usize, len: usize) -> Vec<Case> {
    let pos = boundary_positions(n, start, len);
    let mut ix: Vec<Idx> = pos.iter().map(|p| Idx::At(*p as u32)).collect();
    ix.push(Idx::Max(0));
    let mut ops = vec![
        Op::PushBack, Op::PushFront, Op::TryPushBack, Op::TryPushFront, Op::PopBack, Op::PopFront, Op::Clear, Op::Fill, Op::FillWith,
        Op::FillSpare, Op::FillSpareWith, Op::MakeContiguous, Op::Views, Op::ToVec, Op::Dbg(false), Op::Dbg(true), Op::CloneBuf(false),
        Op::CloneBuf(true), Op::EqSlice(None), Op::EqSlice(Some(Idx::Past(1))), Op::DropBuf, Op::MoveBuf,
    ];
    for i in &ix {
        ops.push(Op::Remove(*i));
        ops.push(Op::SwapRemoveBack(*i));
        ops.push(Op::SwapRemoveFront(*i));
        ops.push(Op::TruncateBack(*i));
        ops.push(Op::TruncateFront(*i));
        ops.push(Op::Read(*i));
        ops.push(Op::EqSlice(Some(*i)));
        for j in &ix {
            ops.push(Op::Swap(*i, *j));
        }
        for a in ALL_ACC {
            ops.push(Op::Set(*a, *i));
            ops.push(Op::Mutate(*a, *i));
        }
    }
    let free = n - len.min(n);
    let mut ms: Vec<usize> = vec![0, 1, 2, free.saturating_sub(1), free, free + 1, n.saturating_sub(1), n, n + 1, 2 * n + 1, 31, 32, 33, 63, 64, 65];
    ms.sort_unstable();
    ms.dedup();
    for m in ms {
        ops.push(Op::Extend(m as u32, Hint::Exact));
        ops.push(Op::Extend(m as u32, Hint::Low));
        ops.push(Op::ExtendFromSlice(m as u32));
        ops.push(Op::FromIter(m as u32, Hint::Exact));
        ops.push(Op::ExtendPairs(m as u32, Hint::Exact));
        ops.push(Op::Unzip(m as u32, Hint::Low));
    }
    let inr: Vec<usize> = pos.iter().copied().filter(|p| *p <= len).collect();
    for (ai, a) in inr.iter().enumerate() {
        for b in &inr[ai..] {
            let r = canonical(*a, *b);
            ops.push(Op::Drain(r, vec![], End::Drop));
            ops.push(Op::Drain(r, vec![Step::Next, Step::NextBack], End::Drop));
            ops.push(Op::Drain(r, vec![Step::Nth(2), Step::NthBack(1)], End::Drop));
            ops.push(Op::Drain(r, vec![Step::NextBack, Step::Next], End::Forget));
            ops.push(Op::IterScript(IterKind::Range(r), vec![Step::Next, Step::NextBack, Step::Nth(1), Step::NthBack(1), Step::Fork]));
            ops.push(Op::IterScript(IterKind::RangeMut(r), vec![Step::NextBack, Step::Next, Step::NthBack(2), Step::Nth(0)]));
        }
    }
    ops.push(Op::Drain(canonical(0, len + 1), vec![], End::Drop));
    // long hops (nth / nth_back / skip / step_by with counts around 32, 64, the wrap point and the length)
    let mut hops: Vec<u16> = pos.iter().filter(|p| **p >= 3 && **p <= u16::MAX as usize).map(|p| *p as u16).collect();
    hops.push(u16::MAX);
    for k in hops {
        for t in [Step::Nth(k), Step::NthBack(k), Step::Skip(k), Step::StepBy(k)] {
            ops.push(Op::IterScript(IterKind::Iter, vec![t.clone(), Step::Next, Step::NextBack]));
            ops.push(Op::IterScript(IterKind::Iter, vec![Step::Next, Step::NextBack, t.clone(), Step::Next]));
            ops.push(Op::IterScript(IterKind::IterMut, vec![Step::NextBack, t.clone(), Step::Next]));
            ops.push(Op::IntoIter(vec![t.clone(), Step::Next, Step::NextBack]));
            ops.push(Op::Drain(RangeSpec::full(), vec![Step::Next, t.clone(), Step::NextBack], End::Drop));
        }
    }
    ops.push(Op::IterScript(IterKind::Iter, vec![Step::Next, Step::NextBack, Step::Nth(30), Step::NthBack(31), Step::Fork, Step::Search]));
    ops.push(Op::IterScript(IterKind::IterMut, vec![Step::NextBack, Step::Nth(31), Step::NthBack(30), Step::RevCollect]));
    ops.push(Op::IntoIter(vec![Step::Next, Step::NextBack, Step::Nth(3), Step::Fork, Step::RevCollect]));
    ops.push(Op::IntoIter(vec![Step::NthBack(33), Step::Fold]));
    if n > 0 {
        for s in [0, 1, n / 2, n - 1] {
            for l in [0, 1, n / 2, n] {
                ops.push(Op::CloneFrom(s as u32, l as u32));
            }
            ops.push(Op::Cmp(s as u32, len as u32, None));
            ops.push(Op::Cmp(s as u32, len.saturating_sub(1) as u32, None));
            if len > 0 {
                ops.push(Op::Cmp(s as u32, len as u32, Some(Idx::At((len - 1) as u32))));
                ops.push(Op::Cmp(s as u32, len as u32, Some(Idx::At((len / 2) as u32))));
            }
        }
    }
    for (bn, bm) in crate::deq::FROM_ARRAY_BIG_PAIRS {
        if bn == n {
            ops.push(Op::FromArray(bm as u32));
        }
    }
    // every step is followed by two insertions that make a misplaced front visible
    ops.into_iter().map(|op| base(n, start, len, vec![op, Op::PushBack, Op::PushFront])).collect()
}
