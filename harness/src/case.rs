//! The case language (DESIGN 2.3): one `Case` = capacity, initial layout, filling of unoccupied
//! slots, optional fault plan, and a list of operations with abstract arguments.  The JSON form
//! of a `Case` is the replay file format.

use crate::tracked::FaultKind;
use serde::{Deserialize, Serialize};
use std::fmt;
use std::ops::Bound;

#[derive(Debug, Clone, Copy, PartialEq, Eq, Hash, Serialize, Deserialize)]
pub enum Idx {
    /// absolute position k
    At(u32),
    /// len - k (saturating)
    FromEnd(u32),
    /// len + k
    Past(u32),
    /// usize::MAX - k
    Max(u32),
    /// position k * (len + 2) >> 16: covers 0..=len+1 for any length and shrinks towards 0
    Frac(u16),
}

impl Idx {
    pub fn resolve(self, len: usize) -> usize {
        match self {
            Idx::At(k) => k as usize,
            Idx::FromEnd(k) => len.saturating_sub(k as usize),
            Idx::Past(k) => len + k as usize,
            Idx::Max(k) => usize::MAX - k as usize,
            Idx::Frac(k) => ((k as u64 * (len as u64 + 2)) >> 16) as usize,
        }
    }
}

impl fmt::Display for Idx {
    fn fmt(&self, f: &mut fmt::Formatter<'_>) -> fmt::Result {
        match self {
            Idx::At(k) => write!(f, "{k}"),
            Idx::FromEnd(k) => write!(f, "len-{k}"),
            Idx::Past(k) => write!(f, "len+{k}"),
            Idx::Max(0) => write!(f, "MAX"),
            Idx::Max(k) => write!(f, "MAX-{k}"),
            Idx::Frac(k) => write!(f, "frac({k}/65536 of len+2)"),
        }
    }
}

#[derive(Debug, Clone, Copy, PartialEq, Eq, Hash, Serialize, Deserialize)]
pub enum Bnd {
    Unb,
    Inc(Idx),
    Exc(Idx),
}

impl Bnd {
    pub fn resolve(self, len: usize) -> Bound<usize> {
        match self {
            Bnd::Unb => Bound::Unbounded,
            Bnd::Inc(i) => Bound::Included(i.resolve(len)),
            Bnd::Exc(i) => Bound::Excluded(i.resolve(len)),
        }
    }
}

#[derive(Debug, Clone, Copy, PartialEq, Eq, Hash, Serialize, Deserialize)]
pub struct RangeSpec {
    pub start: Bnd,
    pub end: Bnd,
    /// use the std range type (`a..b`, `a..=b`, ...) when one exists for this bound pair
    pub native: bool,
}

impl RangeSpec {
    pub fn full() -> Self {
        RangeSpec { start: Bnd::Unb, end: Bnd::Unb, native: true }
    }
    pub fn resolve(self, len: usize) -> crate::deq::RangeArg {
        crate::deq::RangeArg {
            start: self.start.resolve(len),
            end: self.end.resolve(len),
            native: self.native,
        }
    }
}

impl fmt::Display for RangeSpec {
    fn fmt(&self, f: &mut fmt::Formatter<'_>) -> fmt::Result {
        let native = self.native
            && !matches!(self.start, Bnd::Exc(_));
        if native {
            match self.start {
                Bnd::Inc(a) => write!(f, "{a}")?,
                _ => {}
            }
            match self.end {
                Bnd::Unb => write!(f, ".."),
                Bnd::Exc(b) => write!(f, "..{b}"),
                Bnd::Inc(b) => write!(f, "..={b}"),
            }
        } else {
            let b = |b: Bnd| match b {
                Bnd::Unb => "Unbounded".to_string(),
                Bnd::Inc(i) => format!("Included({i})"),
                Bnd::Exc(i) => format!("Excluded({i})"),
            };
            write!(f, "({}, {})", b(self.start), b(self.end))
        }
    }
}

/// One step of an iterator / drain consumption script.
#[derive(Debug, Clone, Copy, PartialEq, Eq, Hash, Serialize, Deserialize)]
pub enum Step {
    Next,
    NextBack,
    /// clone the iterator (Iter / IntoIter only); both copies are then driven to the end
    Fork,
    Nth(u16),
    NthBack(u16),
    Dbg,
    /// consume the rest with `count()` / `last()` / `fold` / `rev().collect()`
    Count,
    Last,
    Fold,
    RevCollect,
    /// consume the rest with `skip(k)` / `step_by(k + 1)` and collect (drains and owning iterators)
    Skip(u16),
    StepBy(u16),
    /// `find` (false) / `rfind` (true) with a predicate that panics on its k-th call; the panic is caught and the script
    /// goes on with the same iterator: what is left must be a contiguous rest of the sequence, and how much was consumed
    /// goes into the trace (it must not depend on the layout or the build)
    PanicSearch(u16, bool),
    /// consume the rest through internal iteration from the back: `rfold` / `rev().for_each(..)`
    RFold,
    /// `rev().last()` resp. `try_fold`-style `find` from the front (`position`), consuming
    RevLast,
    /// searching / reducing adaptors on a clone of a shared iterator: position, rposition, find, rfind,
    /// max_by_key, min_by_key, all, any, Iterator::eq
    Search,
    /// `position(..)` / `rposition(..)` for the middle remaining element, called on the iterator itself
    /// (by `&mut`), which must then continue right after / right before the match
    FindMid,
    RFindMid,
    /// consume the rest through another closure-taking consumer and collect what the closure was handed, in visit order:
    /// 0 for_each, 1 rev().for_each, 2 all, 3 rev().all, 4 find_map, 5 rev().find_map, 6 reduce, 7 rev().reduce
    /// (every one of them has a default implementation that an iterator may override); the closure is a fault point
    Via(u8),
}

pub const VIA_NAMES: [&str; 8] = ["for_each", "rev().for_each", "all", "rev().all", "find_map", "rev().find_map", "reduce", "rev().reduce"];

/// `Step::Via`: drives `it` to the end through the chosen consumer; returns what the closure received, in visit order.
pub fn via_collect<T, I: DoubleEndedIterator<Item = T>>(it: I, flavor: u8) -> Vec<T> {
    use crate::tracked::{user_event, FaultKind};
    let mut w: Vec<T> = Vec::new();
    match flavor % 8 {
        0 => it.for_each(|x| {
            w.push(x);
            user_event(FaultKind::Make);
        }),
        1 => it.rev().for_each(|x| {
            w.push(x);
            user_event(FaultKind::Make);
        }),
        2 => {
            let mut it = it;
            let _ = it.all(|x| {
                w.push(x);
                user_event(FaultKind::Make);
                true
            });
        }
        3 => {
            let mut it = it;
            let _ = it.by_ref().rev().all(|x| {
                w.push(x);
                user_event(FaultKind::Make);
                true
            });
        }
        4 => {
            let mut it = it;
            let _ = it.find_map(|x| {
                w.push(x);
                user_event(FaultKind::Make);
                None::<()>
            });
        }
        5 => {
            let _ = it.rev().find_map(|x| {
                w.push(x);
                user_event(FaultKind::Make);
                None::<()>
            });
        }
        6 => {
            let last = it.reduce(|a, b| {
                w.push(a);
                user_event(FaultKind::Make);
                b
            });
            w.extend(last);
        }
        _ => {
            let last = it.rev().reduce(|a, b| {
                w.push(a);
                user_event(FaultKind::Make);
                b
            });
            w.extend(last);
        }
    }
    w
}

#[derive(Debug, Clone, Copy, PartialEq, Eq, Hash, Serialize, Deserialize)]
pub enum End {
    Drop,
    Forget,
}

/// Mutable accessor used for a write.
#[derive(Debug, Clone, Copy, PartialEq, Eq, Hash, Serialize, Deserialize)]
pub enum Acc {
    GetMut,
    NthFrontMut,
    NthBackMut,
    FrontMut,
    BackMut,
    IndexMut,
    IterMut,
    IterMutRev,
    RangeMut,
    MutSlices,
    MakeContiguous,
    /// `iter_mut().max()` / `iter_mut().min()`: the position argument is ignored, the target is the last greatest /
    /// first least element (what `Iterator::max` / `min` document); interesting with equal values in the contents
    IterMutMax,
    IterMutMin,
}

pub const ALL_ACC: &[Acc] = &[
    Acc::GetMut,
    Acc::NthFrontMut,
    Acc::NthBackMut,
    Acc::FrontMut,
    Acc::BackMut,
    Acc::IndexMut,
    Acc::IterMut,
    Acc::IterMutRev,
    Acc::RangeMut,
    Acc::MutSlices,
    Acc::MakeContiguous,
    Acc::IterMutMax,
    Acc::IterMutMin,
];

#[derive(Debug, Clone, Copy, PartialEq, Eq, Hash, Serialize, Deserialize)]
pub enum Hint {
    Exact,
    Low,
    Zero,
    /// (0, Some(usize::MAX))
    Unbounded,
    /// exact lower bound, loose upper bound: (left, Some(left + k)) - legal for every iterator
    /// whose adaptor cannot know how many elements survive (filter, take_while, chars, ...)
    Over(u32),
}

#[derive(Debug, Clone, Copy, PartialEq, Eq, Hash, Serialize, Deserialize)]
pub enum IterKind {
    Iter,
    RefIntoIter,
    IterMut,
    Range(RangeSpec),
    RangeMut(RangeSpec),
    DefaultIter,
    DefaultIterMut,
}

#[derive(Debug, Clone, PartialEq, Eq, Hash, Serialize, Deserialize)]
pub enum Op {
    PushBack,
    PushFront,
    TryPushBack,
    TryPushFront,
    PopBack,
    PopFront,
    Remove(Idx),
    Swap(Idx, Idx),
    SwapRemoveBack(Idx),
    SwapRemoveFront(Idx),
    TruncateBack(Idx),
    TruncateFront(Idx),
    Clear,
    Fill,
    FillWith,
    FillSpare,
    FillSpareWith,
    Extend(u32, Hint),
    /// `(buffer, Vec<()>).extend(pairs)`: std's tuple Extend, which goes through `extend_reserve` / `extend_one`
    ExtendPairs(u32, Hint),
    ExtendFromSlice(u32),
    MakeContiguous,
    Drain(RangeSpec, Vec<Step>, End),
    /// `drain` / `range_mut` / `range` (selected by the last number) with a RangeBounds value whose answers change
    /// between calls: mode 0 answers (Unbounded, Unbounded) first and the real bounds afterwards, mode 1 the other
    /// way round, mode 2 alternates.  Any consistent reading is acceptable; what must hold is validity.
    ShiftyRange(RangeSpec, u8, u8),
    /// clone_from a same-capacity source built at layout (start, len)
    CloneFrom(u32, u32),
    /// replace the element at a position through a mutable accessor
    Set(Acc, Idx),
    /// change the element's value in place through a mutable accessor
    Mutate(Acc, Idx),
    /// all shared accessors at one position
    Read(Idx),
    /// iter / as_slices / to_vec / Debug / range(..) agreement over the whole contents
    Views,
    IterScript(IterKind, Vec<Step>),
    /// into_iter() consumed by a script and dropped; the state continues with a fresh buffer
    IntoIter(Vec<Step>),
    /// clone() the buffer, check the clone, drop clone (`true`: drop source first then continue
    /// with the clone)
    CloneBuf(bool),
    ToVec,
    /// ==, partial_cmp, cmp, hash against a same-capacity buffer built at layout (start, len)
    /// whose values copy ours except position `Idx` gets a different value (None: equal)
    Cmp(u32, u32, Option<Idx>),
    /// the same against a buffer of another capacity m <= 8 (first field): ==, != and partial_cmp
    CmpCap(u32, u32, u32, Option<Idx>),
    /// == against a slice with the same values except at position (None: equal); Some(Past(k)):
    /// slice longer by k
    EqSlice(Option<Idx>),
    Dbg(bool),
    /// drop the buffer, build a new one from an array / iterator of m fresh elements
    FromArray(u32),
    FromIter(u32, Hint),
    /// `iter.unzip::<_, _, CircularBuffer, Vec<()>>()`: Default + tuple Extend
    Unzip(u32, Hint),
    /// move the buffer value to a new heap location
    MoveBuf,
    /// drop the buffer and continue with a fresh empty one
    DropBuf,
}

impl Op {
    pub fn name(&self) -> &'static str {
        match self {
            Op::PushBack => "push_back",
            Op::PushFront => "push_front",
            Op::TryPushBack => "try_push_back",
            Op::TryPushFront => "try_push_front",
            Op::PopBack => "pop_back",
            Op::PopFront => "pop_front",
            Op::Remove(_) => "remove",
            Op::Swap(..) => "swap",
            Op::SwapRemoveBack(_) => "swap_remove_back",
            Op::SwapRemoveFront(_) => "swap_remove_front",
            Op::TruncateBack(_) => "truncate_back",
            Op::TruncateFront(_) => "truncate_front",
            Op::Clear => "clear",
            Op::Fill => "fill",
            Op::FillWith => "fill_with",
            Op::FillSpare => "fill_spare",
            Op::FillSpareWith => "fill_spare_with",
            Op::Extend(..) => "extend",
            Op::ExtendPairs(..) => "extend_pairs",
            Op::Unzip(..) => "unzip",
            Op::ExtendFromSlice(_) => "extend_from_slice",
            Op::MakeContiguous => "make_contiguous",
            Op::Drain(_, _, End::Drop) => "drain",
            Op::Drain(_, _, End::Forget) => "drain_forget",
            Op::ShiftyRange(..) => "shifty_range",
            Op::CloneFrom(..) => "clone_from",
            Op::Set(..) => "set_via",
            Op::Mutate(..) => "mutate_via",
            Op::Read(_) => "read",
            Op::Views => "views",
            Op::IterScript(..) => "iter_script",
            Op::IntoIter(_) => "into_iter",
            Op::CloneBuf(_) => "clone",
            Op::ToVec => "to_vec",
            Op::Cmp(..) => "cmp",
            Op::CmpCap(..) => "cmp_other_capacity",
            Op::EqSlice(_) => "eq_slice",
            Op::Dbg(_) => "debug",
            Op::FromArray(_) => "from_array",
            Op::FromIter(..) => "from_iter",
            Op::MoveBuf => "move",
            Op::DropBuf => "drop_buf",
        }
    }
}

/// What the unoccupied slots are overwritten with after construction and after every operation.
#[derive(Debug, Clone, Copy, PartialEq, Eq, Hash, Serialize, Deserialize)]
pub enum Fill {
    Leave,
    Zero,
    Ones,
    X5A,
    /// bitwise copy of a live element of this buffer
    LiveCopy,
    /// bitwise copy of an element the harness holds
    HeldCopy,
    /// bitwise copy (valid magic) of an already destroyed element
    DeadCopy,
}

pub const ALL_FILLS: &[Fill] =
    &[Fill::Leave, Fill::Zero, Fill::Ones, Fill::X5A, Fill::LiveCopy, Fill::HeldCopy, Fill::DeadCopy];

/// How the initial layout is reached through the public API.
#[derive(Debug, Clone, Copy, PartialEq, Eq, Hash, Serialize, Deserialize)]
pub enum Route {
    /// s x push_back, s x pop_front, l x push_back
    PushPop,
    /// (N - s) x push_front then pops from the back, then l pushes at the back
    PushFront,
    /// fill completely by extend_from_slice, rotate with push_back, drain what is not wanted
    ExtendDrain,
    /// truncate_front route
    Truncate,
}

pub const ALL_ROUTES: &[Route] = &[Route::PushPop, Route::PushFront, Route::ExtendDrain, Route::Truncate];

#[derive(Debug, Clone, Copy, PartialEq, Eq, Hash, Serialize, Deserialize)]
pub struct Fault {
    pub kind: FaultKind,
    /// 1-based index of the event that panics, counted from the start of operation `op_index`
    pub k: u32,
    /// index into `ops`; `ops.len()` means the final drop of the buffer
    pub op_index: u32,
}

#[derive(Debug, Clone, PartialEq, Eq, Hash, Serialize, Deserialize)]
pub struct Case {
    pub n: u32,
    pub ctor: u8,
    pub route: Route,
    pub start: u32,
    pub len: u32,
    pub fill: Fill,
    pub fault: Option<Fault>,
    /// unresolved fault choice (kind, entropy for the op, entropy for k): resolved against a
    /// fault-free counting run so that the fault lands on an event that exists
    #[serde(default)]
    pub fault_pick: Option<(FaultKind, u16, u16)>,
    pub ops: Vec<Op>,
    /// seed for the choices the interpreter makes itself (drop order at the end, poison picks)
    pub salt: u32,
    /// run every crate call from inside a destructor while the thread is unwinding from an unrelated panic
    /// (`std::thread::panicking()` is then true throughout)
    #[serde(default)]
    pub unwinding: bool,
    /// initial values: 0 distinct ascending, 1 all equal, 2 ascending with ties (pairs), 3 descending, 4 alternating high / low
    #[serde(default)]
    pub vals: u8,
}

pub fn initial_val(pattern: u8, i: u32, len: u32) -> u32 {
    match pattern {
        1 => 1000,
        2 => 1000 + i / 2,
        3 => 1000 + (len - i),
        4 => {
            if i % 2 == 0 {
                1005
            } else {
                1001
            }
        }
        _ => 1000 + i,
    }
}

impl Case {
    pub fn with_vals(mut self, pattern: u8) -> Self {
        self.vals = pattern;
        self
    }
    pub fn simple(n: usize, start: usize, len: usize, ops: Vec<Op>) -> Self {
        Case {
            n: n as u32,
            ctor: 0,
            route: Route::PushPop,
            start: start as u32,
            len: len as u32,
            fill: Fill::Leave,
            fault: None,
            fault_pick: None,
            ops,
            salt: 0,
            unwinding: false,
            vals: 0,
        }
    }
    pub fn to_json(&self) -> String {
        serde_json::to_string(self).unwrap()
    }
    pub fn from_json(s: &str) -> Result<Self, String> {
        serde_json::from_str(s).map_err(|e| e.to_string())
    }
    /// short human readable rendering for evidence samples
    pub fn render(&self) -> String {
        let mut s = format!(
            "N={} layout(start={},len={},route={:?}) fill={:?}",
            self.n, self.start, self.len, self.route, self.fill
        );
        if let Some(f) = self.fault {
            s += &format!(" fault({:?} #{} in op {})", f.kind, f.k, f.op_index);
        }
        s += " ops=[";
        for (i, op) in self.ops.iter().enumerate() {
            if i > 0 {
                s += "; ";
            }
            s += &render_op(op);
        }
        s += "]";
        s
    }
}

pub fn render_steps(st: &[Step]) -> String {
    st.iter()
        .map(|s| match s {
            Step::Next => "n".to_string(),
            Step::NextBack => "b".to_string(),
            Step::Fork => "fork".to_string(),
            Step::Nth(k) => format!("nth({k})"),
            Step::NthBack(k) => format!("nth_back({k})"),
            Step::Dbg => "dbg".to_string(),
            Step::Count => "count".to_string(),
            Step::Last => "last".to_string(),
            Step::Fold => "fold".to_string(),
            Step::RevCollect => "rev".to_string(),
            Step::Skip(k) => format!("skip({k})"),
            Step::PanicSearch(k, back) => format!("{}(panics at call {k})", if *back { "rfind" } else { "find" }),
            Step::StepBy(k) => format!("step_by({})", *k as usize + 1),
            Step::RFold => "rfold".to_string(),
            Step::RevLast => "rev().last()".to_string(),
            Step::Search => "search".to_string(),
            Step::FindMid => "position(mid)".to_string(),
            Step::RFindMid => "rposition(mid)".to_string(),
            Step::Via(f) => format!("via[{}]", VIA_NAMES[*f as usize % VIA_NAMES.len()]),
        })
        .collect::<Vec<_>>()
        .join(",")
}

pub fn render_op(op: &Op) -> String {
    match op {
        Op::Remove(i) | Op::SwapRemoveBack(i) | Op::SwapRemoveFront(i) | Op::TruncateBack(i)
        | Op::TruncateFront(i) | Op::Read(i) => format!("{}({i})", op.name()),
        Op::Swap(i, j) => format!("swap({i},{j})"),
        Op::Extend(n, h) => format!("extend(iter of {n}, hint {h:?})"),
        Op::ExtendPairs(n, h) => format!("(buf, vec).extend(pairs of {n}, hint {h:?})"),
        Op::Unzip(n, h) => format!("unzip({n},{h:?})"),
        Op::ExtendFromSlice(n) => format!("extend_from_slice(len {n})"),
        Op::Drain(r, st, e) => format!("drain({r})[{}]{}", render_steps(st), if *e == End::Forget { " forget" } else { " drop" }),
        Op::ShiftyRange(r, mode, which) => format!("{}(bounds that change between calls: mode {mode}, real bounds {r})", ["drain", "range_mut", "range"][*which as usize % 3]),
        Op::CloneFrom(s, l) => format!("clone_from(src start={s} len={l})"),
        Op::Set(a, i) => format!("set({a:?},{i})"),
        Op::Mutate(a, i) => format!("mutate({a:?},{i})"),
        Op::IterScript(k, st) => {
            let k = match k {
                IterKind::Range(r) => format!("range({r})"),
                IterKind::RangeMut(r) => format!("range_mut({r})"),
                o => format!("{o:?}"),
            };
            format!("{k}[{}]", render_steps(st))
        }
        Op::IntoIter(st) => format!("into_iter[{}]", render_steps(st)),
        Op::CloneBuf(b) => format!("clone(keep_clone={b})"),
        Op::Cmp(s, l, d) => format!("cmp(other start={s} len={l} differ_at={})", d.map(|d| d.to_string()).unwrap_or("none".into())),
        Op::CmpCap(m, s, l, d) => format!("cmp(other capacity={m} start={s} len={l} differ_at={})", d.map(|d| d.to_string()).unwrap_or("none".into())),
        Op::EqSlice(d) => format!("eq_slice(differ_at={})", d.map(|d| d.to_string()).unwrap_or("none".into())),
        Op::Dbg(a) => format!("debug(alt={a})"),
        Op::FromArray(m) => format!("from([T;{m}])"),
        Op::FromIter(m, h) => format!("from_iter({m},{h:?})"),
        o => o.name().to_string(),
    }
}
