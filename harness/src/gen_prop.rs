//! proptest strategies for whole histories (DESIGN 2.3/2).  All randomness comes from the
//! proptest runner, seeded from VERIF_SEED.

use crate::case::*;
use crate::deq::CAPS_RANDOM;
use crate::props::Prop;
use crate::tracked::FaultKind;
use proptest::prelude::*;

pub fn idx() -> BoxedStrategy<Idx> {
    prop_oneof![
        5 => any::<u16>().prop_map(Idx::Frac),
        3 => (0u32..10).prop_map(Idx::At),
        2 => (0u32..4).prop_map(Idx::FromEnd),
        1 => (0u32..3).prop_map(Idx::Past),
        1 => (0u32..2).prop_map(Idx::Max),
    ]
    .boxed()
}

pub fn bnd() -> BoxedStrategy<Bnd> {
    prop_oneof![2 => Just(Bnd::Unb), 4 => idx().prop_map(Bnd::Inc), 4 => idx().prop_map(Bnd::Exc)].boxed()
}

/// Mostly valid ranges (built from two sorted fractions), sometimes arbitrary bound pairs.
pub fn range() -> BoxedStrategy<RangeSpec> {
    prop_oneof![
        6 => (any::<u16>(), any::<u16>(), any::<bool>(), 0u8..4).prop_map(|(x, y, native, form)| {
            let (a, b) = if x <= y { (x, y) } else { (y, x) };
            // fractions of len+2 may exceed len by one; the model decides whether that panics
            let a = (a as u32 * 60000 / 65536) as u16;
            let b = (b as u32 * 60000 / 65536) as u16;
            let start = match form { 0 => Bnd::Unb, _ => Bnd::Inc(Idx::Frac(a)) };
            let end = match form { 1 => Bnd::Unb, _ => Bnd::Exc(Idx::Frac(b)) };
            RangeSpec { start, end, native }
        }),
        2 => (0u32..6, 0u32..6, any::<bool>()).prop_map(|(a, l, native)| RangeSpec {
            start: Bnd::Inc(Idx::At(a)),
            end: Bnd::Exc(Idx::At(a + l)),
            native,
        }),
        1 => Just(RangeSpec::full()),
        1 => (bnd(), bnd(), any::<bool>()).prop_map(|(start, end, native)| RangeSpec { start, end, native }),
    ]
    .boxed()
}

pub fn step(wide: bool) -> BoxedStrategy<Step> {
    if wide {
        prop_oneof![
            6 => Just(Step::Next),
            6 => Just(Step::NextBack),
            2 => Just(Step::Fork),
            2 => prop_oneof![4 => 0u16..5, 1 => 28u16..70, 1 => 120u16..135].prop_map(Step::Nth),
            2 => prop_oneof![4 => 0u16..5, 1 => 28u16..70, 1 => 120u16..135].prop_map(Step::NthBack),
            1 => Just(Step::Dbg),
            1 => Just(Step::Count),
            1 => Just(Step::Last),
            1 => Just(Step::Fold),
            1 => Just(Step::RevCollect),
            1 => Just(Step::Search),
            1 => Just(Step::FindMid),
            1 => (0u16..6, any::<bool>()).prop_map(|(k, b)| Step::PanicSearch(k, b)),
            1 => Just(Step::RFindMid),
            1 => Just(Step::RFold),
            2 => (0u8..8).prop_map(Step::Via),
            1 => Just(Step::RevLast),
            1 => prop_oneof![4 => 0u16..4, 1 => 28u16..70].prop_map(Step::Skip),
            1 => prop_oneof![4 => 0u16..3, 1 => 28u16..70].prop_map(Step::StepBy),
        ]
        .boxed()
    } else {
        prop_oneof![4 => Just(Step::Next), 4 => Just(Step::NextBack), 1 => Just(Step::Dbg)].boxed()
    }
}

pub fn script(wide: bool, max: usize) -> BoxedStrategy<Vec<Step>> {
    proptest::collection::vec(step(wide), 0..=max).boxed()
}

fn acc() -> BoxedStrategy<Acc> {
    proptest::sample::select(ALL_ACC.to_vec()).boxed()
}
fn hint() -> BoxedStrategy<Hint> {
    prop_oneof![
        3 => Just(Hint::Exact),
        2 => Just(Hint::Low),
        1 => Just(Hint::Zero),
        1 => Just(Hint::Unbounded),
        3 => (0u32..80).prop_map(Hint::Over),
    ]
    .boxed()
}

/// Source lengths: up to `m` with a bias to small numbers, occasionally around N (resolved by
/// the interpreter? no - lengths are absolute), so a few classes are mixed.
fn count(maxn: u32) -> BoxedStrategy<u32> {
    // mostly small, sometimes around the capacity, rarely far beyond any plausible chunking threshold
    prop_oneof![40 => 0u32..6, 30 => 0u32..20, 20 => 0u32..(2 * maxn + 2), 10 => (maxn.saturating_sub(1))..(maxn + 2), 1 => 4090u32..4100].boxed()
}

#[derive(Clone, Copy)]
pub struct Weights {
    pub grow: u32,
    pub shrink: u32,
    pub bulk: u32,
    pub view: u32,
    pub iter: u32,
    pub drain: u32,
    pub forget: u32,
    pub ctor: u32,
    pub cmp: u32,
    pub wide_steps: bool,
}

pub fn weights(p: Prop) -> Weights {
    let base = Weights { grow: 10, shrink: 8, bulk: 6, view: 5, iter: 3, drain: 4, forget: 0, ctor: 1, cmp: 2, wide_steps: false };
    match p {
        Prop::C02 => Weights { grow: 30, shrink: 6, bulk: 2, view: 1, iter: 0, drain: 1, ctor: 0, cmp: 0, ..base },
        Prop::C03 => Weights { iter: 5, drain: 6, ctor: 3, ..base },
        Prop::C04 => Weights { view: 8, cmp: 6, iter: 5, ..base },
        Prop::C07 => Weights { view: 20, iter: 5, ..base },
        Prop::C08 => Weights { iter: 30, wide_steps: true, ..base },
        Prop::C09 => Weights { drain: 25, wide_steps: false, ..base },
        Prop::C10 => Weights { drain: 6, forget: 12, ..base },
        Prop::C12 => Weights { ctor: 15, cmp: 3, ..base },
        _ => base,
    }
}

pub fn op(w: Weights, maxn: u32) -> BoxedStrategy<Op> {
    let ws = w.wide_steps;
    let mut v: Vec<(u32, BoxedStrategy<Op>)> = vec![
        (w.grow * 3, Just(Op::PushBack).boxed()),
        (w.grow * 2, Just(Op::PushFront).boxed()),
        (w.grow, Just(Op::TryPushBack).boxed()),
        (w.grow, Just(Op::TryPushFront).boxed()),
        (w.shrink * 2, Just(Op::PopBack).boxed()),
        (w.shrink * 2, Just(Op::PopFront).boxed()),
        (w.shrink * 2, idx().prop_map(Op::Remove).boxed()),
        (w.shrink, idx().prop_map(Op::SwapRemoveBack).boxed()),
        (w.shrink, idx().prop_map(Op::SwapRemoveFront).boxed()),
        (w.shrink, idx().prop_map(Op::TruncateBack).boxed()),
        (w.shrink, idx().prop_map(Op::TruncateFront).boxed()),
        (w.shrink / 2 + 1, Just(Op::Clear).boxed()),
        (w.bulk, (idx(), idx()).prop_map(|(a, b)| Op::Swap(a, b)).boxed()),
        (w.bulk / 2 + 1, Just(Op::Fill).boxed()),
        (w.bulk / 2 + 1, Just(Op::FillWith).boxed()),
        (w.bulk / 2 + 1, Just(Op::FillSpare).boxed()),
        (w.bulk / 2 + 1, Just(Op::FillSpareWith).boxed()),
        (w.bulk * 2, (count(maxn), hint()).prop_map(|(m, h)| Op::Extend(m, h)).boxed()),
        (w.bulk, (count(maxn), hint()).prop_map(|(m, h)| Op::ExtendPairs(m, h)).boxed()),
        (w.bulk * 3, count(maxn).prop_map(Op::ExtendFromSlice).boxed()),
        (w.bulk, Just(Op::MakeContiguous).boxed()),
        (w.bulk, (any::<u16>(), any::<u16>()).prop_map(|(s, l)| Op::CloneFrom(s as u32, l as u32)).boxed()),
        (w.view * 2, (acc(), idx()).prop_map(|(a, i)| Op::Set(a, i)).boxed()),
        (w.view, (acc(), idx()).prop_map(|(a, i)| Op::Mutate(a, i)).boxed()),
        (w.view * 2, idx().prop_map(Op::Read).boxed()),
        (w.view, Just(Op::Views).boxed()),
        (w.view / 2 + 1, any::<bool>().prop_map(Op::Dbg).boxed()),
        (w.view / 2 + 1, Just(Op::ToVec).boxed()),
        (w.view / 2 + 1, Just(Op::MoveBuf).boxed()),
        (w.drain, (range(), script(true, 6)).prop_map(|(r, s)| Op::Drain(r, s, End::Drop)).boxed()),
        (w.ctor, any::<bool>().prop_map(Op::CloneBuf).boxed()),
        (w.ctor, (0u32..20).prop_map(Op::FromArray).boxed()),
        (w.ctor, (count(maxn), hint()).prop_map(|(m, h)| Op::FromIter(m, h)).boxed()),
        (w.ctor / 2 + 1, Just(Op::DropBuf).boxed()),
        (w.cmp, (any::<u16>(), any::<u16>(), proptest::option::of(idx())).prop_map(|(s, l, d)| Op::Cmp(s as u32, l as u32, d)).boxed()),
        (w.cmp, proptest::option::of(idx()).prop_map(Op::EqSlice).boxed()),
        (w.cmp, (0u32..9, any::<u16>(), any::<u16>(), proptest::option::of(idx())).prop_map(|(m, s, l, d)| Op::CmpCap(m, s as u32, l as u32, d)).boxed()),
    ];
    if w.iter > 0 {
        let kinds = prop_oneof![
            3 => Just(IterKind::Iter),
            1 => Just(IterKind::RefIntoIter),
            3 => Just(IterKind::IterMut),
            4 => range().prop_map(IterKind::Range),
            4 => range().prop_map(IterKind::RangeMut),
            1 => Just(IterKind::DefaultIter),
            1 => Just(IterKind::DefaultIterMut),
        ];
        v.push((w.iter * 3, (kinds, script(ws, 8)).prop_map(|(k, s)| Op::IterScript(k, s)).boxed()));
        v.push((w.iter, script(ws, 8).prop_map(Op::IntoIter).boxed()));
    }
    if w.forget > 0 {
        v.push((w.forget, (range(), any::<bool>().prop_flat_map(|w| script(w, 5))).prop_map(|(r, s)| Op::Drain(r, s, End::Forget)).boxed()));
        v.push((1, (range(), 0u8..3, 0u8..3).prop_map(|(r, m, w)| Op::ShiftyRange(r, m, w)).boxed()));
    }
    let v: Vec<(u32, BoxedStrategy<Op>)> = v.into_iter().filter(|x| x.0 > 0).collect();
    proptest::strategy::Union::new_weighted(v).boxed()
}

/// Capacity choice: weighted towards small and non-power-of-two capacities.
fn cap(p: Prop) -> BoxedStrategy<u32> {
    let caps: Vec<(u32, u32)> = CAPS_RANDOM
        .iter()
        .map(|&n| {
            let w = match n {
                0 => 2,
                1 | 2 => 4,
                3..=8 => 6,
                9..=17 => 5,
                18..=64 => 3,
                65..=256 => 3,
                _ => 1,
            };
            (w, n as u32)
        })
        .filter(|(_, n)| !(matches!(p, Prop::C12) && *n > 9 && *n != 16))
        .collect();
    proptest::strategy::Union::new_weighted(caps.into_iter().map(|(w, n)| (w, Just(n).boxed())).collect::<Vec<_>>()).boxed()
}

pub fn case(p: Prop, max_ops: usize) -> BoxedStrategy<Case> {
    let w = weights(p);
    cap(p)
        .prop_flat_map(move |n| {
            let fills = match p {
                Prop::C04 => proptest::sample::select(ALL_FILLS.to_vec()).boxed(),
                _ => prop_oneof![3 => Just(Fill::Leave), 1 => proptest::sample::select(ALL_FILLS.to_vec())].boxed(),
            };
            let fault: BoxedStrategy<Option<(FaultKind, u32, u16)>> = match p {
                Prop::C05 => (1u32..12, any::<u16>()).prop_map(|(k, at)| Some((FaultKind::Drop, k, at))).boxed(),
                Prop::C06 => (
                    proptest::sample::select(vec![FaultKind::Clone, FaultKind::Make, FaultKind::IterStep, FaultKind::Eq]),
                    1u32..12,
                    any::<u16>(),
                )
                    .prop_map(|(kind, k, at)| Some((kind, k, at)))
                    .boxed(),
                _ => Just(None).boxed(),
            };
            (
                Just(n),
                any::<u16>(),
                any::<u16>(),
                proptest::sample::select(ALL_ROUTES.to_vec()),
                fills,
                0u8..3,
                any::<u32>(),
                proptest::collection::vec(op(w, n), 0..=max_ops),
                fault,
            )
        })
        .prop_map(|(n, s, l, route, fill, ctor, salt, ops, fault)| {
            let start = if n == 0 { 0 } else { (s as u32 * n) >> 16 };
            let len = (l as u32 * (n + 1)) >> 16;
            let _ = Fault { kind: FaultKind::Drop, k: 0, op_index: 0 };
            let fault_pick = fault.map(|(kind, k, at)| (kind, at, (k as u16).wrapping_mul(5461)));
            Case { n, ctor, route, start, len, fill, fault: None, fault_pick, ops, salt, unwinding: salt % 8 == 0, vals: if (salt >> 3) % 3 == 0 { ((salt >> 5) % 5) as u8 } else { 0 } }
        })
        .boxed()
}
