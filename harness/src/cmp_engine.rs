//! C13: equality, ordering, hashing and Debug depend only on the logical contents.
//! Exhaustive over capacity pairs (N, M) <= 5, all layouts of both sides, all contents over a
//! two-letter alphabet (three letters with NaN for partial orders); proptest for wider pairs.

use circular_buffer::CircularBuffer;
use serde::{Deserialize, Serialize};
use std::cmp::Ordering;
use std::collections::hash_map::DefaultHasher;
use std::collections::HashSet;
use std::hash::{Hash, Hasher};
use std::sync::atomic::{AtomicUsize, Ordering as AO};
use std::sync::Mutex;

#[derive(Debug, Clone, Copy, PartialEq, Eq, Hash, PartialOrd, Ord)]
pub struct A(pub i32);
#[derive(Debug, Clone, Copy, PartialEq, Eq, Hash, PartialOrd, Ord)]
pub struct B(pub i32);
impl PartialEq<B> for A {
    fn eq(&self, o: &B) -> bool {
        self.0 == o.0
    }
}
impl PartialOrd<B> for A {
    fn partial_cmp(&self, o: &B) -> Option<Ordering> {
        self.0.partial_cmp(&o.0)
    }
}

#[derive(Debug, Clone, PartialEq, Serialize, Deserialize)]
pub struct CmpCase {
    pub kind: String, // "int" | "float" | "debug"
    pub n: u32,
    pub m: u32,
    pub sa: u32,
    pub sb: u32,
    /// contents; for floats 2 encodes NaN
    pub va: Vec<i32>,
    pub vb: Vec<i32>,
}

impl CmpCase {
    pub fn render(&self) -> String {
        format!(
            "{} N={} M={} a: start={} contents={:?}; b: start={} contents={:?}",
            self.kind, self.n, self.m, self.sa, self.va, self.sb, self.vb
        )
    }
}

const JUNK: i32 = 7777;

fn build<const N: usize, T: Copy>(start: usize, vals: &[T], junk: T) -> CircularBuffer<N, T> {
    let mut b = CircularBuffer::<N, T>::new();
    if N == 0 {
        return b;
    }
    // every slot gets junk first, so that unoccupied slots never hold a plausible value
    for _ in 0..N {
        b.push_back(junk);
    }
    b.clear();
    for _ in 0..start % N {
        b.push_back(junk);
    }
    for _ in 0..start % N {
        b.pop_front();
    }
    for v in vals.iter().take(N) {
        b.push_back(*v);
    }
    b
}

fn lex_int(a: &[i32], b: &[i32]) -> Ordering {
    for i in 0.. {
        match (a.get(i), b.get(i)) {
            (None, None) => return Ordering::Equal,
            (None, Some(_)) => return Ordering::Less,
            (Some(_), None) => return Ordering::Greater,
            (Some(x), Some(y)) if x < y => return Ordering::Less,
            (Some(x), Some(y)) if x > y => return Ordering::Greater,
            _ => {}
        }
    }
    unreachable!()
}

fn f_of(code: i32) -> f32 {
    if code == 2 {
        f32::NAN
    } else {
        code as f32
    }
}

fn lex_float(a: &[f32], b: &[f32]) -> Option<Ordering> {
    for i in 0.. {
        match (a.get(i), b.get(i)) {
            (None, None) => return Some(Ordering::Equal),
            (None, Some(_)) => return Some(Ordering::Less),
            (Some(_), None) => return Some(Ordering::Greater),
            (Some(x), Some(y)) => match x.partial_cmp(y) {
                Some(Ordering::Equal) => {}
                other => return other,
            },
        }
    }
    unreachable!()
}

/// A legitimate `Hasher` that is sensitive to how the bytes are chunked into `write` calls (like
/// the word-at-a-time hashers people plug into HashMap): equal values must hash equally under
/// it too, which for a container means issuing the same sequence of calls whatever its layout.
pub struct ChunkHasher(pub u64);
impl Hasher for ChunkHasher {
    fn finish(&self) -> u64 {
        self.0
    }
    fn write(&mut self, bytes: &[u8]) {
        let mut x = self.0 ^ 0x9E37_79B9_7F4A_7C15u64.wrapping_mul(bytes.len() as u64 + 1);
        for b in bytes {
            x = (x ^ *b as u64).wrapping_mul(0x100000001b3);
        }
        self.0 = x.rotate_left(23);
    }
}

fn hc<T: Hash>(t: &T) -> u64 {
    let mut s = ChunkHasher(0xcbf29ce484222325);
    t.hash(&mut s);
    s.finish()
}

fn h<T: Hash>(t: &T) -> u64 {
    let mut s = DefaultHasher::new();
    t.hash(&mut s);
    s.finish()
}

macro_rules! with_array {
    ($vals:expr, $T:ty, |$arr:ident| $body:expr) => {{
        let v: &[$T] = $vals;
        match v.len() {
            0 => { let mut $arr: [$T; 0] = []; $body }
            1 => { let mut $arr: [$T; 1] = [v[0]]; $body }
            2 => { let mut $arr: [$T; 2] = [v[0], v[1]]; $body }
            3 => { let mut $arr: [$T; 3] = [v[0], v[1], v[2]]; $body }
            4 => { let mut $arr: [$T; 4] = [v[0], v[1], v[2], v[3]]; $body }
            5 => { let mut $arr: [$T; 5] = [v[0], v[1], v[2], v[3], v[4]]; $body }
            6 => { let mut $arr: [$T; 6] = [v[0], v[1], v[2], v[3], v[4], v[5]]; $body }
            _ => true,
        }
    }};
}

pub const F_WRAP_A: u64 = 1;
pub const F_WRAP_B: u64 = 2;
pub const F_BOTH_NONEMPTY: u64 = 4;
pub const F_EQUAL: u64 = 8;

fn int_pair<const N: usize, const M: usize>(sa: usize, va: &[i32], sb: usize, vb: &[i32]) -> Result<u64, String> {
    let xa: Vec<A> = va.iter().map(|v| A(*v)).collect();
    let xb: Vec<B> = vb.iter().map(|v| B(*v)).collect();
    let a = build::<N, A>(sa, &xa, A(JUNK));
    let b = build::<M, B>(sb, &xb, B(JUNK));
    let mut flags = 0;
    if !a.as_slices().1.is_empty() {
        flags |= F_WRAP_A;
    }
    if !b.as_slices().1.is_empty() {
        flags |= F_WRAP_B;
    }
    if !va.is_empty() && !vb.is_empty() {
        flags |= F_BOTH_NONEMPTY;
    }
    let eq = va == vb;
    if eq {
        flags |= F_EQUAL;
    }
    let ord = lex_int(va, vb);
    if (a == b) != eq {
        return Err(format!("buffer == buffer returned {}, sequences {:?} vs {:?}", a == b, va, vb));
    }
    if (a != b) == eq {
        return Err(format!("buffer != buffer returned {}, sequences {:?} vs {:?}", a != b, va, vb));
    }
    if a.partial_cmp(&b) != Some(ord) {
        return Err(format!("partial_cmp returned {:?}, lexicographic order of {:?} vs {:?} is {:?}", a.partial_cmp(&b), va, vb, ord));
    }
    if (a > b) != (ord == Ordering::Greater) || (a <= b) != (ord != Ordering::Greater) {
        return Err(format!("operators > / <= disagree with the lexicographic order of {:?} vs {:?}", va, vb));
    }
    if (a < b) != (ord == Ordering::Less) || (a >= b) != (ord != Ordering::Less) {
        return Err(format!("operators < / >= disagree with the lexicographic order of {:?} vs {:?}", va, vb));
    }
    // the same object on both sides (an identity shortcut must not change the answer)
    {
        let r = &a;
        #[allow(clippy::eq_op)]
        if !(a == a) || a != *r || a.partial_cmp(r) != Some(Ordering::Equal) || a.cmp(r) != Ordering::Equal || !(a <= *r) || a < *r {
            return Err(format!("a buffer compared with itself is not equal: {:?}", va));
        }
    }
    // slices, references to slices, arrays, references to arrays
    let mut xb2 = xb.clone();
    if (a == xb[..]) != eq {
        return Err(format!("buffer == [U] returned {}, sequences {:?} vs {:?}", a == xb[..], va, vb));
    }
    if (a == &xb[..]) != eq {
        return Err(format!("buffer == &[U] returned {}, sequences {:?} vs {:?}", a == &xb[..], va, vb));
    }
    if (a == &mut xb2[..]) != eq {
        return Err(format!("buffer == &mut [U] disagrees, sequences {:?} vs {:?}", va, vb));
    }
    let ok = with_array!(&xb, B, |arr| (a == arr) == eq && (a == &arr) == eq && (a == &mut arr) == eq);
    if !ok {
        return Err(format!("buffer == [U; K] / &[U; K] / &mut [U; K] disagrees with the sequences {:?} vs {:?}", va, vb));
    }
    // primitive element types (an implementation may compare them in bulk): i32, u8, bool, char and ()
    {
        let (pa, pb) = (build::<N, i32>(sa, va, JUNK), build::<M, i32>(sb, vb, JUNK));
        if (pa == pb) != eq || pa.partial_cmp(&pb) != Some(ord) || (pa == vb[..]) != eq {
            return Err(format!("i32 elements: == / partial_cmp / == slice disagree with the sequences {:?} vs {:?}", va, vb));
        }
        let (ua, ub): (Vec<u8>, Vec<u8>) = (va.iter().map(|v| *v as u8).collect(), vb.iter().map(|v| *v as u8).collect());
        let (qa, qb) = (build::<N, u8>(sa, &ua, 0xEE), build::<M, u8>(sb, &ub, 0xEE));
        if (qa == qb) != eq || qa.partial_cmp(&qb) != Some(ord) || (qa == ub[..]) != eq || (qa == &ub[..]) != eq {
            return Err(format!("u8 elements: == / partial_cmp / == slice disagree with the sequences {:?} vs {:?}", ua, ub));
        }
        let (ba, bb): (Vec<bool>, Vec<bool>) = (va.iter().map(|v| *v != 0).collect(), vb.iter().map(|v| *v != 0).collect());
        let (ra, rb) = (build::<N, bool>(sa, &ba, true), build::<M, bool>(sb, &bb, true));
        if (ra == rb) != (ba == bb) || ra.partial_cmp(&rb) != ba.partial_cmp(&bb) || (ra == bb[..]) != (ba == bb) {
            return Err(format!("bool elements: == / partial_cmp disagree with the sequences {:?} vs {:?}", ba, bb));
        }
        let (ca, cb): (Vec<char>, Vec<char>) = (va.iter().map(|v| char::from(b'a' + *v as u8)).collect(), vb.iter().map(|v| char::from(b'a' + *v as u8)).collect());
        let (ka, kb) = (build::<N, char>(sa, &ca, 'z'), build::<M, char>(sb, &cb, 'z'));
        if (ka == kb) != eq || ka.partial_cmp(&kb) != Some(ord) {
            return Err(format!("char elements: == / partial_cmp disagree with the sequences {:?} vs {:?}", ca, cb));
        }
        let (za, zb) = (build::<N, ()>(sa, &vec![(); va.len()], ()), build::<M, ()>(sb, &vec![(); vb.len()], ()));
        if (za == zb) != (va.len() == vb.len()) || za.partial_cmp(&zb) != Some(va.len().cmp(&vb.len())) {
            return Err(format!("() elements: == / partial_cmp disagree with the lengths {} vs {}", va.len(), vb.len()));
        }
    }
    // zero-sized element types whose equality is not the trivial one: never equal (NaN-like marker), and two distinct
    // marker types that are never equal to each other; plus the ordinary unit struct
    {
        #[derive(Clone, Copy, Debug)]
        struct NeverEq;
        impl PartialEq for NeverEq {
            fn eq(&self, _: &Self) -> bool {
                false
            }
        }
        #[derive(Clone, Copy, Debug)]
        struct MarkA;
        #[derive(Clone, Copy, Debug)]
        struct MarkB;
        impl PartialEq<MarkB> for MarkA {
            fn eq(&self, _: &MarkB) -> bool {
                false
            }
        }
        #[derive(Clone, Copy, Debug, PartialEq)]
        struct Plain0;
        let both_empty = va.is_empty() && vb.is_empty();
        let (x, y) = (build::<N, NeverEq>(sa, &vec![NeverEq; va.len()], NeverEq), build::<M, NeverEq>(sb, &vec![NeverEq; vb.len()], NeverEq));
        if (x == y) != both_empty || (x != y) == both_empty || (x == vec![NeverEq; vb.len()][..]) != both_empty {
            return Err(format!("zero-sized elements that are never equal: buffers of lengths {} and {} compare equal = {}", va.len(), vb.len(), x == y));
        }
        let (x, y) = (build::<N, MarkA>(sa, &vec![MarkA; va.len()], MarkA), build::<M, MarkB>(sb, &vec![MarkB; vb.len()], MarkB));
        if (x == y) != both_empty || (x == vec![MarkB; vb.len()][..]) != both_empty {
            return Err(format!("two zero-sized marker types that are never equal: buffers of lengths {} and {} compare equal = {}", va.len(), vb.len(), x == y));
        }
        let (x, y) = (build::<N, Plain0>(sa, &vec![Plain0; va.len()], Plain0), build::<M, Plain0>(sb, &vec![Plain0; vb.len()], Plain0));
        if (x == y) != (va.len() == vb.len()) {
            return Err(format!("unit-struct elements: buffers of lengths {} and {} compare equal = {}", va.len(), vb.len(), x == y));
        }
    }
    // homogeneous side: Ord, Eq and Hash need the same type and (for Ord/Hash) the same capacity
    let b2 = build::<M, A>(sb, &vb.iter().map(|v| A(*v)).collect::<Vec<_>>(), A(JUNK));
    if (a == b2) != eq {
        return Err(format!("homogeneous == returned {}, sequences {:?} vs {:?}", a == b2, va, vb));
    }
    if N == M {
        let b3 = build::<N, A>(sb, &vb.iter().map(|v| A(*v)).collect::<Vec<_>>(), A(JUNK));
        if a.cmp(&b3) != ord {
            return Err(format!("cmp returned {:?}, expected {:?} for {:?} vs {:?}", a.cmp(&b3), ord, va, vb));
        }
        if a.clone().max(b3.clone()) != if ord == Ordering::Greater { a.clone() } else { b3.clone() } {
            return Err("Ord::max disagrees with cmp".into());
        }
        // one-byte element types whose order is not the order of their bytes, and other primitive types, through Ord::cmp
        {
            use std::cmp::Reverse;
            let (ia, ib): (Vec<i8>, Vec<i8>) = (va.iter().map(|v| (*v as i8) * 2 - 1).collect(), vb.iter().map(|v| (*v as i8) * 2 - 1).collect());
            let (x, y) = (build::<N, i8>(sa, &ia, 100), build::<N, i8>(sb, &ib, 100));
            if x.cmp(&y) != ia.cmp(&ib) || x.partial_cmp(&y) != ia.partial_cmp(&ib) || (x == y) != (ia == ib) {
                return Err(format!("i8 elements: cmp gave {:?}, the sequences {:?} vs {:?} give {:?}", x.cmp(&y), ia, ib, ia.cmp(&ib)));
            }
            let (ra, rb): (Vec<Reverse<u8>>, Vec<Reverse<u8>>) = (va.iter().map(|v| Reverse(*v as u8)).collect(), vb.iter().map(|v| Reverse(*v as u8)).collect());
            let (x, y) = (build::<N, Reverse<u8>>(sa, &ra, Reverse(9)), build::<N, Reverse<u8>>(sb, &rb, Reverse(9)));
            if x.cmp(&y) != ra.cmp(&rb) || x.partial_cmp(&y) != ra.partial_cmp(&rb) {
                return Err(format!("Reverse<u8> elements: cmp gave {:?}, the sequences {:?} vs {:?} give {:?}", x.cmp(&y), ra, rb, ra.cmp(&rb)));
            }
            let (oa, ob): (Vec<Option<bool>>, Vec<Option<bool>>) = (va.iter().map(|v| if *v == 0 { None } else { Some(*v % 2 == 0) }).collect(), vb.iter().map(|v| if *v == 0 { None } else { Some(*v % 2 == 0) }).collect());
            let (x, y) = (build::<N, Option<bool>>(sa, &oa, Some(true)), build::<N, Option<bool>>(sb, &ob, Some(true)));
            if x.cmp(&y) != oa.cmp(&ob) {
                return Err(format!("Option<bool> elements: cmp gave {:?}, the sequences {:?} vs {:?} give {:?}", x.cmp(&y), oa, ob, oa.cmp(&ob)));
            }
            let (x, y) = (build::<N, i32>(sa, va, JUNK), build::<N, i32>(sb, vb, JUNK));
            let (na, nb): (Vec<i32>, Vec<i32>) = (va.iter().map(|v| -*v).collect(), vb.iter().map(|v| -*v).collect());
            let (xn, yn) = (build::<N, i32>(sa, &na, JUNK), build::<N, i32>(sb, &nb, JUNK));
            if x.cmp(&y) != ord || xn.cmp(&yn) != na.cmp(&nb) {
                return Err(format!("i32 elements: cmp disagrees with the sequences {:?} vs {:?}", va, vb));
            }
        }
        if eq && h(&a) != h(&b3) {
            return Err(format!("equal buffers of the same capacity hash differently: {:?}, layouts start {} and {}", va, sa, sb));
        }
        if eq {
            // primitive element types (whose hash_slice is one bulk write) under a hasher that is
            // sensitive to the chunking of its input
            let p1 = build::<N, i32>(sa, va, JUNK);
            let p2 = build::<N, i32>(sb, vb, JUNK);
            if hc(&p1) != hc(&p2) || hc(&a) != hc(&b3) {
                return Err(format!("equal buffers of the same capacity hash differently under a chunk-sensitive hasher (i32 elements): {:?}, layouts start {} and {}", va, sa, sb));
            }
            let v8: Vec<u8> = va.iter().map(|v| *v as u8).collect();
            let q1 = build::<N, u8>(sa, &v8, 0xEE);
            let q2 = build::<N, u8>(sb, &v8, 0xEE);
            if hc(&q1) != hc(&q2) || h(&q1) != h(&q2) {
                return Err(format!("equal buffers of the same capacity hash differently under a chunk-sensitive hasher (u8 elements): {:?}, layouts start {} and {}", va, sa, sb));
            }
        }
    }
    Ok(flags)
}

fn float_pair<const N: usize, const M: usize>(sa: usize, ca: &[i32], sb: usize, cb: &[i32]) -> Result<u64, String> {
    let va: Vec<f32> = ca.iter().map(|c| f_of(*c)).collect();
    let vb: Vec<f32> = cb.iter().map(|c| f_of(*c)).collect();
    let a = build::<N, f32>(sa, &va, 7777.0);
    let b = build::<M, f32>(sb, &vb, 7777.0);
    let mut flags = 0;
    if !a.as_slices().1.is_empty() {
        flags |= F_WRAP_A;
    }
    if !b.as_slices().1.is_empty() {
        flags |= F_WRAP_B;
    }
    if !va.is_empty() && !vb.is_empty() {
        flags |= F_BOTH_NONEMPTY;
    }
    let eq = va.len() == vb.len() && va.iter().zip(vb.iter()).all(|(x, y)| x == y);
    if eq {
        flags |= F_EQUAL;
    }
    if (a == b) != eq {
        return Err(format!("buffer == buffer returned {}, sequences {:?} vs {:?}", a == b, va, vb));
    }
    // the same object on both sides: equality of floats is not reflexive, so an identity shortcut is wrong
    {
        let r = &a;
        let self_eq = va.iter().all(|x| x == x);
        #[allow(clippy::eq_op)]
        let got = a == a;
        let (s1, s2) = a.as_slices();
        let own_slice = if s2.is_empty() { Some(a == *s1) } else { None };
        if got != self_eq || (a != *r) == self_eq || a.partial_cmp(r) != lex_float(&va, &va) || own_slice.map_or(false, |x| x != self_eq) {
            return Err(format!(
                "a buffer compared with itself (same object): == gave {got}, partial_cmp gave {:?}, == its own slice gave {:?}; element-wise the sequence {:?} gives {self_eq} / {:?}",
                a.partial_cmp(r), own_slice, va, lex_float(&va, &va)
            ));
        }
    }
    let want = lex_float(&va, &vb);
    if a.partial_cmp(&b) != want {
        return Err(format!("partial_cmp returned {:?}, expected {:?} for {:?} vs {:?}", a.partial_cmp(&b), want, va, vb));
    }
    // the four operators are provided methods of PartialOrd: each must agree with the lexicographic partial order
    // (all false when the deciding pair is incomparable)
    {
        use std::cmp::Ordering::*;
        let exp = [want == Some(Less), matches!(want, Some(Less | Equal)), want == Some(Greater), matches!(want, Some(Greater | Equal))];
        let got = [a < b, a <= b, a > b, a >= b];
        let got2 = [PartialOrd::lt(&a, &b), PartialOrd::le(&a, &b), PartialOrd::gt(&a, &b), PartialOrd::ge(&a, &b)];
        if got != exp || got2 != exp {
            return Err(format!("operators [<, <=, >, >=] gave {:?}, the lexicographic partial order of {:?} vs {:?} ({:?}) gives {:?}", got, va, vb, want, exp));
        }
        let sl = [va[..] < vb[..], va[..] <= vb[..], va[..] > vb[..], va[..] >= vb[..]];
        if sl != exp {
            return Err("internal: reference operators disagree with the slice operators".into());
        }
    }
    // cross-check of the hand-written order against the slice order
    if va[..].partial_cmp(&vb[..]) != want {
        return Err("internal: reference order disagrees with the slice order".into());
    }
    if (a == vb[..]) != eq || (a == &vb[..]) != eq {
        return Err(format!("buffer == slice disagrees, sequences {:?} vs {:?}", va, vb));
    }
    let ok = with_array!(&vb, f32, |arr| (a == arr) == eq && (a == &arr) == eq && (a == &mut arr) == eq);
    if !ok {
        return Err(format!("buffer == array disagrees, sequences {:?} vs {:?}", va, vb));
    }
    Ok(flags)
}

macro_rules! fmt_specs {
    ($buf:expr, $slice:expr; $($spec:literal),*) => {{
        let mut r: Result<(), String> = Ok(());
        $(
            if r.is_ok() {
                let got = format!($spec, $buf);
                let want = format!($spec, $slice);
                if got != want {
                    r = Err(format!("format!({:?}, buffer) = {:?}, the equivalent slice gives {:?}", $spec, got, want));
                }
            }
        )*
        r
    }};
}

fn debug_one<const N: usize>(sa: usize, va: &[i32]) -> Result<u64, String> {
    let a = build::<N, i32>(sa, va, JUNK);
    let mut flags = 0;
    if !a.as_slices().1.is_empty() {
        flags |= F_WRAP_A | F_WRAP_B;
    }
    if !va.is_empty() {
        flags |= F_BOTH_NONEMPTY;
    }
    let s: &[i32] = va;
    fmt_specs!(a, s; "{:?}", "{:#?}", "{:5?}", "{:<5?}", "{:>6?}", "{:^7?}", "{:*^7?}", "{:+?}", "{:#x?}", "{:#X?}",
        "{:05?}", "{:#06x?}", "{:x?}", "{:X?}", "{:+05?}", "{:#5?}", "{:-<8?}", "{:08?}", "{:#010x?}", "{:1?}", "{:+#?}",
        "{:~>4?}", "{:#^9?}", "{:3?}")?;
    let af = build::<N, f32>(sa, &va.iter().map(|v| *v as f32 * 1.25).collect::<Vec<_>>(), 7777.0);
    let vf: Vec<f32> = va.iter().map(|v| *v as f32 * 1.25).collect();
    let sf: &[f32] = &vf;
    fmt_specs!(af, sf; "{:?}", "{:#?}", "{:.1?}", "{:8.3?}", "{:+.2?}", "{:#.0?}", "{:010.2?}", "{:+#.1?}")?;
    Ok(flags)
}

macro_rules! dispatch_pair {
    ($n:expr, $m:expr, $f:ident, $($args:expr),*) => {{
        macro_rules! inner {
            ($N:literal) => {
                match $m {
                    0 => $f::<$N, 0>($($args),*),
                    1 => $f::<$N, 1>($($args),*),
                    2 => $f::<$N, 2>($($args),*),
                    3 => $f::<$N, 3>($($args),*),
                    4 => $f::<$N, 4>($($args),*),
                    5 => $f::<$N, 5>($($args),*),
                    8 => $f::<$N, 8>($($args),*),
                    16 => $f::<$N, 16>($($args),*),
                    33 => $f::<$N, 33>($($args),*),
                    _ => panic!("capacity pair not in table"),
                }
            };
        }
        match $n {
            0 => inner!(0),
            1 => inner!(1),
            2 => inner!(2),
            3 => inner!(3),
            4 => inner!(4),
            5 => inner!(5),
            8 => inner!(8),
            16 => inner!(16),
            33 => inner!(33),
            _ => panic!("capacity pair not in table"),
        }
    }};
}

pub fn run_cmp_case(c: &CmpCase) -> Result<u64, String> {
    let (n, m, sa, sb) = (c.n as usize, c.m as usize, c.sa as usize, c.sb as usize);
    match c.kind.as_str() {
        "int" => dispatch_pair!(n, m, int_pair, sa, &c.va, sb, &c.vb),
        "float" => dispatch_pair!(n, m, float_pair, sa, &c.va, sb, &c.vb),
        "debug" => {
            fn d<const N: usize, const M: usize>(sa: usize, va: &[i32]) -> Result<u64, String> {
                debug_one::<N>(sa, va)
            }
            dispatch_pair!(n, 0usize, d, sa, &c.va)
        }
        k => Err(format!("unknown kind {k}")),
    }
}

fn all_seqs(len: usize, letters: i32) -> Vec<Vec<i32>> {
    let mut out = vec![vec![]];
    for _ in 0..len {
        let mut next = Vec::new();
        for s in &out {
            for l in 0..letters {
                let mut t = s.clone();
                t.push(l);
                next.push(t);
            }
        }
        out = next;
    }
    out
}

#[derive(Default)]
pub struct CmpStats {
    pub evaluations: u64,
    pub nontrivial: HashSet<u64>,
    pub equal_pairs: u64,
    pub samples: Vec<String>,
    pub by_kind: std::collections::BTreeMap<String, u64>,
}

fn case_hash(c: &CmpCase) -> u64 {
    let mut s = DefaultHasher::new();
    c.kind.hash(&mut s);
    (c.n, c.m, c.sa, c.sb).hash(&mut s);
    c.va.hash(&mut s);
    c.vb.hash(&mut s);
    s.finish()
}

impl CmpStats {
    fn note(&mut self, c: &CmpCase, f: u64) {
        self.evaluations += 1;
        *self.by_kind.entry(c.kind.clone()).or_default() += 1;
        if f & F_EQUAL != 0 {
            self.equal_pairs += 1;
        }
        if f & F_BOTH_NONEMPTY != 0 && f & (F_WRAP_A | F_WRAP_B) != 0 {
            let hh = case_hash(c);
            self.nontrivial.insert(hh);
            if self.samples.len() < 3 || (hh % 300007 == 11 && self.samples.len() < 10) {
                self.samples.push(c.render());
            }
        }
    }
    fn merge(&mut self, o: CmpStats) {
        self.evaluations += o.evaluations;
        self.nontrivial.extend(o.nontrivial);
        self.equal_pairs += o.equal_pairs;
        self.samples.extend(o.samples);
        for (k, v) in o.by_kind {
            *self.by_kind.entry(k).or_default() += v;
        }
    }
}

/// One unit = (kind, n, m, sa, la): enumerates sb, lb and all contents of both sides.
fn unit_cases(kind: &str, n: usize, m: usize, sa: usize, la: usize, f: &mut dyn FnMut(CmpCase) -> bool) {
    let letters = if kind == "float" { 3 } else { 2 };
    if kind == "debug" {
        for va in all_seqs(la, 3) {
            let va: Vec<i32> = va.iter().map(|v| [-1, 0, 255][*v as usize]).collect();
            if !f(CmpCase { kind: kind.into(), n: n as u32, m: 0, sa: sa as u32, sb: 0, va, vb: vec![] }) {
                return;
            }
        }
        return;
    }
    let seq_a = all_seqs(la, letters);
    for lb in 0..=m {
        let seq_b = all_seqs(lb, letters);
        for sb in 0..m.max(1) {
            for va in &seq_a {
                for vb in &seq_b {
                    if !f(CmpCase { kind: kind.into(), n: n as u32, m: m as u32, sa: sa as u32, sb: sb as u32, va: va.clone(), vb: vb.clone() }) {
                        return;
                    }
                }
            }
        }
    }
}

pub fn run_cmp(thorough: bool, seed: u64, threads: usize, prop_cases: u32) -> (CmpStats, CmpStats, Option<(CmpCase, String, &'static str)>) {
    let mut units: Vec<(&'static str, usize, usize, usize, usize)> = Vec::new();
    let fmax = if thorough { 5 } else { 4 };
    for n in 0..=5usize {
        for la in 0..=n {
            for sa in 0..n.max(1) {
                units.push(("debug", n, 0, sa, la));
                for m in 0..=5usize {
                    units.push(("int", n, m, sa, la));
                    if n <= fmax && m <= fmax {
                        units.push(("float", n, m, sa, la));
                    }
                }
            }
        }
    }
    for n in [8usize, 16, 33] {
        for la in 0..=n.min(5) {
            for sa in 0..n {
                units.push(("debug", n, 0, sa, la));
            }
        }
    }
    let next = AtomicUsize::new(0);
    let fail_at = AtomicUsize::new(usize::MAX);
    let found: Mutex<Vec<(usize, CmpCase, String)>> = Mutex::new(Vec::new());
    let total = Mutex::new(CmpStats::default());
    std::thread::scope(|s| {
        for _ in 0..threads {
            s.spawn(|| {
                let mut st = CmpStats::default();
                loop {
                    let u = next.fetch_add(1, AO::SeqCst);
                    if u >= units.len() || u > fail_at.load(AO::SeqCst) {
                        break;
                    }
                    let (kind, n, m, sa, la) = units[u];
                    unit_cases(kind, n, m, sa, la, &mut |c| { crate::watch::tick(); match run_cmp_case(&c) {
                        Ok(f) => {
                            st.note(&c, f);
                            true
                        }
                        Err(msg) => {
                            fail_at.fetch_min(u, AO::SeqCst);
                            found.lock().unwrap().push((u, c, msg));
                            false
                        }
                    }});
                }
                total.lock().unwrap().merge(st);
            });
        }
    });
    let mut f = found.into_inner().unwrap();
    f.sort_by_key(|x| x.0);
    let es = total.into_inner().unwrap();
    if let Some((_, c, m)) = f.into_iter().next() {
        return (es, CmpStats::default(), Some((c, m, "enumerative")));
    }
    // wider capacities and alphabets, randomly
    use proptest::prelude::*;
    use proptest::test_runner::{Config, RngAlgorithm, RngSeed, TestCaseError, TestError, TestRng, TestRunner};
    let caps = vec![0u32, 1, 2, 3, 4, 5, 8, 16, 33];
    let strat = (proptest::sample::select(caps.clone()), proptest::sample::select(caps), any::<u16>(), any::<u16>(), any::<bool>(), 0usize..3)
        .prop_flat_map(|(n, m, sa, sb, float, mode)| {
            let letters = if float { 3 } else { 4 };
            let va = proptest::collection::vec(0i32..letters, 0..=(n as usize));
            (Just((n, m, sa, sb, float, mode)), va, proptest::collection::vec(0i32..letters, 0..=(m as usize)), any::<u16>())
        })
        .prop_map(|((n, m, sa, sb, float, mode), va, vb, cut)| {
            // mode 0: independent; 1: b = copy of a (truncated to M); 2: b = a with one change / prefix
            let mut vb = vb;
            if mode >= 1 {
                vb = va.iter().copied().take(m as usize).collect();
                if mode == 2 && !vb.is_empty() {
                    let p = (cut as usize * vb.len()) >> 16;
                    if cut & 1 == 0 {
                        vb[p] = (vb[p] + 1) % 2;
                    } else {
                        vb.truncate(p);
                    }
                }
            }
            CmpCase {
                kind: if float { "float".into() } else { "int".into() },
                n,
                m,
                sa: if n == 0 { 0 } else { (sa as u32 * n) >> 16 },
                sb: if m == 0 { 0 } else { (sb as u32 * m) >> 16 },
                va,
                vb,
            }
        });
    let found: Mutex<Vec<(usize, CmpCase, String)>> = Mutex::new(Vec::new());
    let total = Mutex::new(CmpStats::default());
    std::thread::scope(|s| {
        for t in 0..threads {
            let (found, total, strat) = (&found, &total, &strat);
            s.spawn(move || {
                let mut sb = [0u8; 32];
                sb[..8].copy_from_slice(&seed.to_le_bytes());
                sb[8..16].copy_from_slice(&(t as u64 + 5000).to_le_bytes());
                let cfg = Config { cases: prop_cases / threads as u32 + 1, failure_persistence: None, max_shrink_iters: 10000, rng_seed: RngSeed::Fixed(seed), ..Config::default() };
                let mut runner = TestRunner::new_with_rng(cfg, TestRng::from_seed(RngAlgorithm::ChaCha, &sb));
                let st = std::cell::RefCell::new(CmpStats::default());
                let failed = std::cell::Cell::new(false);
                let res = runner.run(strat, |c| match { crate::watch::tick(); run_cmp_case(&c) } {
                    Ok(f) => {
                        if !failed.get() {
                            st.borrow_mut().note(&c, f);
                        }
                        Ok(())
                    }
                    Err(m) => {
                        failed.set(true);
                        Err(TestCaseError::fail(m))
                    }
                });
                if let Err(TestError::Fail(r, c)) = res {
                    found.lock().unwrap().push((t, c, r.message().to_string()));
                }
                total.lock().unwrap().merge(st.into_inner());
            });
        }
    });
    let mut f = found.into_inner().unwrap();
    f.sort_by_key(|x| x.0);
    (es, total.into_inner().unwrap(), f.into_iter().next().map(|(_, c, m)| (c, m, "proptest")))
}
