//! Step driver and the mutating operations of the interpreter.

use crate::case::*;
use crate::interp::*;
use crate::tracked::{self as ledger, FaultKind, Tracked};

macro_rules! cc {
    ($e:expr) => {
        match $e {
            Called::Ok(v) => v,
            Called::Injected => return Ok(Flow::Injected),
            Called::Panic(m) => return Err(format!("unexpected panic: {m}")),
        }
    };
}
pub(crate) use cc;

/// Iterator handed to `extend` / `from_iter`: creates its elements on the fly.
pub struct GenIter {
    pub left: u32,
    pub next_val: u32,
    pub hint: Hint,
    pub made: Vec<u32>,
    /// The iterator is deliberately not fused: once it has returned `None`, polling it again produces
    /// further elements.  They are not part of the sequence the caller passed, and are recorded here.
    pub ended: bool,
    pub extra: Vec<u32>,
}

impl GenIter {
    pub fn new(left: u32, next_val: u32, hint: Hint) -> GenIter {
        GenIter { left, next_val, hint, made: Vec::new(), ended: false, extra: Vec::new() }
    }
}

impl Iterator for GenIter {
    type Item = Tracked;
    fn next(&mut self) -> Option<Tracked> {
        ledger::user_event(FaultKind::IterStep);
        if self.left == 0 {
            if !self.ended {
                self.ended = true;
                return None;
            }
            if self.extra.len() >= 3 {
                return None;
            }
            let t = Tracked::new(7_000_000 + self.extra.len() as u32);
            self.extra.push(t.raw_id());
            return Some(t);
        }
        self.left -= 1;
        let t = Tracked::new(self.next_val);
        self.next_val += 1;
        self.made.push(t.raw_id());
        Some(t)
    }
    fn size_hint(&self) -> (usize, Option<usize>) {
        // size_hint is user code too: it counts as an iterator event and can be the one that panics
        ledger::user_event(FaultKind::IterStep);
        match self.hint {
            Hint::Exact => (self.left as usize, Some(self.left as usize)),
            Hint::Low => ((self.left / 2) as usize, None),
            Hint::Zero => (0, None),
            Hint::Unbounded => (0, Some(usize::MAX)),
            Hint::Over(k) => (0, Some(self.left as usize + k as usize)),
        }
    }
}

pub fn is_readonly(op: &Op) -> bool {
    matches!(
        op,
        Op::Read(_)
            | Op::Views
            | Op::ToVec
            | Op::Cmp(..)
            | Op::CmpCap(..)
            | Op::EqSlice(_)
            | Op::Dbg(_)
            | Op::CloneBuf(false)
            | Op::IterScript(IterKind::Iter | IterKind::RefIntoIter | IterKind::Range(_) | IterKind::DefaultIter | IterKind::DefaultIterMut, _)
    )
}

fn boundary(i: Idx, len: usize) -> bool {
    let v = i.resolve(len);
    v.saturating_add(1) >= len || matches!(i, Idx::Max(_))
}

pub(crate) fn run_case_impl(case: &Case, opts: Opts) -> Result<Outcome, Failure> {
    ledger::reset();
    let mut st = new_state(case, opts);
    let fail = |msg: String, op_index: Option<usize>| Failure { msg, op_index };

    // ---- construction
    let n = st.n;
    let want_len = (case.len as usize).min(n);
    let vals: Vec<u32> = (0..want_len as u32).map(|i| initial_val(case.vals, i, want_len as u32)).collect();
    let ctor = st.ctor;
    let (b, ids) = st
        .build(n, ctor, case.route, case.start as usize, &vals)
        .map_err(|e| fail(format!("setup: {e}"), None))?;
    st.buf = Some(b);
    st.model = ids.iter().copied().zip(vals.iter().copied()).collect();
    st.events_to_err().map_err(|e| fail(format!("setup: {e}"), None))?;
    let obs = st.observe().map_err(|e| fail(format!("setup: {e}"), None))?;
    check_model(&st, &obs).map_err(|e| fail(format!("setup: {e}"), None))?;
    let mut out = Outcome::default();
    if n > 0 && !obs.is_empty() {
        let slot = st.slots_of(&obs).map_err(|e| fail(format!("setup: {e}"), None))?[0];
        out.start_slot = Some(slot);
        if slot != case.start as usize % n {
            st.flags |= fl::LAYOUT_MISSED;
        }
    }
    st.poison(&obs).map_err(|e| fail(format!("setup: {e}"), None))?;
    st.last_obs = obs;
    // the trace starts here: how the layout was constructed is not part of it
    ledger::with(|l| l.log.clear());

    // ---- operations
    for (i, op) in case.ops.iter().enumerate() {
        let f = case.fault.filter(|f| f.op_index as usize == i);
        let counting = f.is_none();
        st.step(op, f.map(|f| (f.kind, f.k))).map_err(|e| fail(format!("op #{i} {}: {e}", render_op(op)), Some(i)))?;
        if counting && case.fault.is_none() && i + 1 == case.ops.len() {
            out.counts = st.op_counts;
        }
        out.counts_per_op.push(st.op_counts);
    }

    // ---- final drop of the buffer and of everything the harness holds
    let f = case.fault.filter(|f| f.op_index as usize == case.ops.len());
    let last = case.ops.len();
    st.final_drop(f.map(|f| (f.kind, f.k))).map_err(|e| fail(format!("final drop: {e}"), Some(last)))?;
    if case.ops.is_empty() && case.fault.is_none() {
        out.counts = st.op_counts;
    }
    out.counts_per_op.push(st.op_counts);
    // the element lifecycle log (creations, clones, destructions in order, by value) is part of
    // the observable trace
    let log = ledger::with(|l| std::mem::take(&mut l.log));
    for (k, v) in log {
        st.dig(((k as u64) << 32) | v as u64);
    }
    out.flags = st.flags;
    out.digest = st.dig;
    out.max_reloc = st.max_reloc;
    out.leaked = ledger::with(|l| l.live);
    Ok(out)
}

pub(crate) fn check_model(st: &St, obs: &[Obs]) -> R<()> {
    let got: Vec<(u32, u32)> = obs.iter().map(|o| (o.id, o.val)).collect();
    if got != st.model {
        return Err(format!(
            "contents differ from the model: expected (id,val) {:?}, observed {:?}",
            st.model, got
        ));
    }
    Ok(())
}

impl St {
    pub(crate) fn step(&mut self, op: &Op, fault: Option<(FaultKind, u32)>) -> R<()> {
        let before = self.last_obs.clone();
        self.note_layout(&before)?;
        ledger::take_touched();
        let ids_before = ledger::n_ids();
        let live_before = ledger::with(|l| l.live);
        let model_before = self.model.clone();
        self.pending_fault = fault;
        self.fired = false;
        self.op_counts = [0; 5];
        self.allowed.clear();
        self.dig(op_tag(op));
        take_side_digest();
        let flow = self.apply(op)?;
        let side = take_side_digest();
        self.dig(side);
        self.pending_fault = None;
        self.events_to_err()?;
        let obs = self.observe()?;
        match flow {
            Flow::Injected => {
                if !self.fired {
                    return Err("an Injected panic escaped although no fault was armed".into());
                }
                // validity predicate only; the model is re-synchronised
                for o in &obs {
                    if self.held.iter().any(|h| h.raw_id() == o.id) {
                        return Err(format!("after the panic the buffer contains element id={} which the caller also owns", o.id));
                    }
                }
                if is_readonly(op) {
                    let got: Vec<(u32, u32)> = obs.iter().map(|o| (o.id, o.val)).collect();
                    if got != model_before {
                        return Err(format!("a read-only operation that panicked changed the contents: before {:?} after {:?}", model_before, got));
                    }
                }
                self.model = obs.iter().map(|o| (o.id, o.val)).collect();
                self.flags |= fl::FAULT_FIRED;
                if fault.map(|f| f.0) == Some(FaultKind::Drop) {
                    self.leak_ok = true;
                } else {
                    self.deferred_leak_check = true;
                    self.flags |= fl::USER_PANIC_NONDROP;
                }
                self.dig(0xFA17);
            }
            Flow::Done => {
                if self.fired {
                    return Err("the injected panic did not propagate out of the call (swallowed)".into());
                }
                check_model(self, &obs)?;
            }
        }
        // ledger reconciliation: every live element is in exactly one place
        for h in &self.held {
            h.peek_id().map_err(|e| format!("an element the caller owns was affected: {e}"))?;
        }
        let live = ledger::with(|l| l.live) as usize;
        let expect = self.model.len() + self.held.len();
        if !self.leak_ok && !self.deferred_leak_check {
            if live != expect {
                let mut known: Vec<u32> = self.model_ids();
                known.extend(self.held.iter().map(|h| h.raw_id()));
                let stray: Vec<u32> = ledger::live_ids().into_iter().filter(|i| !known.contains(i)).collect();
                return Err(format!(
                    "element accounting: {live} elements alive but {} in the buffer + {} with the caller; unaccounted live ids {:?}",
                    self.model.len(), self.held.len(), stray
                ));
            }
        } else if live < expect {
            return Err(format!("element accounting: only {live} alive but {expect} reachable"));
        } else if live > expect {
            self.flags |= fl::LEAKED;
        }
        // user code may only have looked at elements the call is about
        if self.opts.touch {
            let touched = ledger::take_touched();
            for t in touched {
                if t > ids_before
                    || model_before.iter().any(|m| m.0 == t)
                    || self.model.iter().any(|m| m.0 == t)
                    || self.allowed.contains(&t)
                {
                    continue;
                }
                return Err(format!("user code (clone/eq/cmp/hash/fmt) ran on element id={t}, which is not part of this buffer nor an argument of the call"));
            }
        }
        // relocation bounds (C20)
        if self.opts.reloc && matches!(flow, Flow::Done) {
            let moved = before
                .iter()
                .filter(|b| obs.iter().any(|a| a.id == b.id && a.addr != b.addr))
                .count();
            self.max_reloc = self.max_reloc.max(moved as u32);
            if let Some(bound) = reloc_bound(op, &before, self) {
                if moved > bound {
                    return Err(format!(
                        "{} surviving elements changed address, documented bound for this call is {bound}",
                        moved
                    ));
                }
            }
        }
        if self.model != model_before {
            self.flags |= fl::CHANGED;
        }
        let created = ledger::n_ids() - ids_before;
        let live_after = ledger::with(|l| l.live);
        if (live_before + created) > live_after {
            self.flags |= fl::DESTROYED;
        }
        let vals: Vec<u32> = self.model.iter().map(|m| m.1).collect();
        for v in vals {
            self.dig(v as u64);
        }
        self.dig(0xE0F);
        self.poison(&obs)?;
        self.last_obs = obs;
        Ok(())
    }

    pub(crate) fn final_drop(&mut self, fault: Option<(FaultKind, u32)>) -> R<()> {
        self.pending_fault = fault;
        self.fired = false;
        self.op_counts = [0; 5];
        let b = self.buf.take().expect("buffer present");
        let r = self.call_free(move || drop(b));
        match r {
            Called::Ok(()) => {
                if self.fired {
                    return Err("the injected panic did not propagate out of drop".into());
                }
            }
            Called::Injected => {
                self.flags |= fl::FAULT_FIRED;
                self.leak_ok = true;
            }
            Called::Panic(m) => return Err(format!("dropping the buffer panicked: {m}")),
        }
        self.events_to_err()?;
        // contents must be dead now (unless leaked by a permitted destructor panic)
        if !self.leak_ok {
            for (id, _) in &self.model {
                if ledger::is_alive(*id) {
                    return Err(format!("element id={id} was in the buffer and is still alive after the buffer was dropped (leak)"));
                }
            }
        }
        // the caller's elements must be untouched by that
        for h in &self.held {
            h.peek_id().map_err(|e| format!("dropping the buffer affected an element the caller owns: {e}"))?;
        }
        // drop what the harness holds, in a seeded order
        while !self.held.is_empty() {
            let k = (self.rnd() as usize) % self.held.len();
            let t = self.held.swap_remove(k);
            drop(t);
        }
        self.events_to_err()?;
        let live = ledger::with(|l| l.live);
        if live != 0 && !self.leak_ok {
            return Err(format!(
                "{live} element(s) never destroyed (leak): ids {:?}",
                ledger::live_ids()
            ));
        }
        if live != 0 {
            self.flags |= fl::LEAKED;
        }
        let over = ledger::with(|l| l.slots.iter().enumerate().filter(|(_, s)| s.drops > 1).map(|(i, _)| i).collect::<Vec<_>>());
        if !over.is_empty() {
            return Err(format!("elements destroyed more than once: ids {:?}", over));
        }
        Ok(())
    }

    fn idx_flag(&mut self, i: Idx, len: usize) {
        if boundary(i, len) {
            self.flags |= fl::BOUNDARY_ARG;
        }
    }

    pub(crate) fn apply(&mut self, op: &Op) -> R<Flow> {
        let n = self.n;
        let len = self.model.len();
        match op {
            Op::PushBack | Op::PushFront => {
                let back = matches!(op, Op::PushBack);
                let x = self.mk();
                let xid = x.raw_id();
                let xv = x.val();
                let exp = if n == 0 {
                    Some(xid)
                } else if len == n {
                    Some(if back { self.model[0].0 } else { self.model[len - 1].0 })
                } else {
                    None
                };
                if len == n {
                    self.flags |= fl::WAS_FULL;
                }
                let r = cc!(self.call(move |b| if back { b.push_back(x) } else { b.push_front(x) }));
                let got = match r {
                    Some(t) => Some(self.hold(t)?),
                    None => None,
                };
                if got != exp {
                    return Err(format!("returned element id {:?}, expected id {:?} (pushed id {xid})", got, exp));
                }
                if got.is_some() {
                    self.flags |= fl::RETURNED;
                }
                self.dig(got.map(|_| 1).unwrap_or(0));
                if n > 0 {
                    if back {
                        if len == n {
                            self.model.remove(0);
                        }
                        self.model.push((xid, xv));
                    } else {
                        if len == n {
                            self.model.pop();
                        }
                        self.model.insert(0, (xid, xv));
                    }
                }
                Ok(Flow::Done)
            }
            Op::TryPushBack | Op::TryPushFront => {
                let back = matches!(op, Op::TryPushBack);
                let x = self.mk();
                let xid = x.raw_id();
                let xv = x.val();
                let full = len == n;
                if full {
                    self.flags |= fl::WAS_FULL;
                }
                let r = cc!(self.call(move |b| if back { b.try_push_back(x) } else { b.try_push_front(x) }));
                match r {
                    Ok(()) => {
                        if full {
                            return Err(format!("returned Ok(()) although the buffer was full (len {len}, N {n}); pushed id {xid}"));
                        }
                        if back {
                            self.model.push((xid, xv));
                        } else {
                            self.model.insert(0, (xid, xv));
                        }
                        self.dig(0);
                    }
                    Err(t) => {
                        let id = self.hold(t)?;
                        self.flags |= fl::RETURNED;
                        if !full {
                            return Err(format!("returned Err although the buffer had room (len {len}, N {n})"));
                        }
                        if id != xid {
                            return Err(format!("Err carries element id {id}, expected the pushed element id {xid}"));
                        }
                        self.dig(1);
                    }
                }
                Ok(Flow::Done)
            }
            Op::PopBack | Op::PopFront => {
                let back = matches!(op, Op::PopBack);
                let exp = if len == 0 {
                    None
                } else if back {
                    Some(self.model[len - 1].0)
                } else {
                    Some(self.model[0].0)
                };
                let r = cc!(self.call(move |b| if back { b.pop_back() } else { b.pop_front() }));
                let got = match r {
                    Some(t) => Some(self.hold(t)?),
                    None => None,
                };
                if got != exp {
                    return Err(format!("returned element id {:?}, expected {:?}", got, exp));
                }
                if got.is_some() {
                    self.flags |= fl::RETURNED;
                    if back {
                        self.model.pop();
                    } else {
                        self.model.remove(0);
                    }
                }
                self.dig(got.map(|_| 1).unwrap_or(0));
                Ok(Flow::Done)
            }
            Op::Remove(i) | Op::SwapRemoveBack(i) | Op::SwapRemoveFront(i) => {
                self.idx_flag(*i, len);
                let p = i.resolve(len);
                let exp = if p < len { Some(self.model[p].0) } else { None };
                let kind = match op {
                    Op::Remove(_) => 0,
                    Op::SwapRemoveBack(_) => 1,
                    _ => 2,
                };
                let r = cc!(self.call(move |b| match kind {
                    0 => b.remove(p),
                    1 => b.swap_remove_back(p),
                    _ => b.swap_remove_front(p),
                }));
                let got = match r {
                    Some(t) => Some(self.hold(t)?),
                    None => None,
                };
                if got != exp {
                    return Err(format!("returned element id {:?}, expected {:?}", got, exp));
                }
                if p < len {
                    self.flags |= fl::RETURNED | fl::READ_OR_MOVED;
                    match kind {
                        0 => {
                            self.model.remove(p);
                        }
                        1 => {
                            self.model.swap_remove(p);
                        }
                        _ => {
                            self.model.swap(p, 0);
                            self.model.remove(0);
                        }
                    }
                }
                self.dig(got.map(|_| 1).unwrap_or(0));
                Ok(Flow::Done)
            }
            Op::Swap(i, j) => {
                self.idx_flag(*i, len);
                self.idx_flag(*j, len);
                let (p, q) = (i.resolve(len), j.resolve(len));
                let must_panic = p >= len || q >= len;
                match self.call(move |b| b.swap(p, q)) {
                    Called::Ok(()) => {
                        if must_panic {
                            return Err(format!("swap({p},{q}) returned normally with len {len}; the documentation says it panics"));
                        }
                        self.model.swap(p, q);
                        self.flags |= fl::READ_OR_MOVED;
                    }
                    Called::Injected => return Ok(Flow::Injected),
                    Called::Panic(m) => {
                        if !must_panic {
                            return Err(format!("unexpected panic: {m}"));
                        }
                        self.flags |= fl::DOC_PANIC;
                        self.dig(0xDEAD);
                    }
                }
                Ok(Flow::Done)
            }
            Op::TruncateBack(i) | Op::TruncateFront(i) => {
                self.idx_flag(*i, len);
                let k = i.resolve(len);
                let back = matches!(op, Op::TruncateBack(_));
                // the model is updated first: after an injected panic the step driver resyncs
                let r = self.call(move |b| if back { b.truncate_back(k) } else { b.truncate_front(k) });
                cc!(r);
                if k < len {
                    if back {
                        self.model.truncate(k);
                    } else {
                        self.model.drain(..len - k);
                    }
                }
                Ok(Flow::Done)
            }
            Op::Clear => {
                cc!(self.call(|b| b.clear()));
                self.model.clear();
                Ok(Flow::Done)
            }
            Op::Fill | Op::FillSpare => {
                let spare = matches!(op, Op::FillSpare);
                let v = self.mk();
                let vid = v.raw_id();
                let vv = v.val();
                cc!(self.call(move |b| if spare { b.fill_spare(v) } else { b.fill(v) }));
                // predicate: new elements are `value` itself or clones of it, in any arrangement
                let keep = if spare { len } else { 0 };
                let obs = self.observe()?;
                if obs.len() != n {
                    return Err(format!("buffer has {} elements after the call, expected it to be full ({n})", obs.len()));
                }
                let mut seen_orig = 0;
                for (p, o) in obs.iter().enumerate() {
                    if p < keep {
                        continue;
                    }
                    if o.val != vv {
                        return Err(format!("position {p} holds value {} instead of the fill value {vv}", o.val));
                    }
                    if o.id == vid {
                        seen_orig += 1;
                    } else if o.id < vid {
                        return Err(format!("position {p} holds element id {} which existed before the call", o.id));
                    }
                }
                if seen_orig > 1 {
                    return Err("the fill value itself appears more than once".into());
                }
                let mut m: Vec<(u32, u32)> = self.model[..keep.min(self.model.len())].to_vec();
                m.extend(obs[keep.min(obs.len())..].iter().map(|o| (o.id, o.val)));
                self.model = m;
                Ok(Flow::Done)
            }
            Op::FillWith | Op::FillSpareWith => {
                let spare = matches!(op, Op::FillSpareWith);
                let mut nv = self.next_val;
                let mut made: Vec<(u32, u32)> = Vec::new();
                let r = {
                    let made = &mut made;
                    let nv = &mut nv;
                    self.call(move |b| {
                        let mut f = || {
                            ledger::user_event(FaultKind::Make);
                            let t = Tracked::new(*nv);
                            *nv += 1;
                            made.push((t.raw_id(), t.val()));
                            t
                        };
                        if spare {
                            b.fill_spare_with(&mut f)
                        } else {
                            b.fill_with(&mut f)
                        }
                    })
                };
                self.next_val = nv;
                cc!(r);
                let keep = if spare { len } else { 0 };
                let need = n - keep;
                if made.len() != need {
                    return Err(format!("the closure was called {} times, {need} slots were to be filled", made.len()));
                }
                let mut m: Vec<(u32, u32)> = self.model[..keep].to_vec();
                m.extend(made);
                self.model = m;
                Ok(Flow::Done)
            }
            Op::Extend(m, hint) | Op::ExtendPairs(m, hint) => {
                let pairs = matches!(op, Op::ExtendPairs(..));
                let mut it = GenIter::new(*m, self.next_val, *hint);
                let r = {
                    let it = &mut it;
                    self.call(move |b| if pairs { b.extend_pairs_dyn(it) } else { b.extend_dyn(it) })
                };
                self.next_val = it.next_val;
                let made: Vec<(u32, u32)> = it.made.iter().map(|id| (*id, ledger::slot(*id).unwrap().val)).collect();
                // evicted elements are dropped by the crate (push_back's return value is discarded)
                if !it.extra.is_empty() {
                    return Err(format!(
                        "extend() polled the iterator again after it had returned None and took {} further element(s) out of it (the iterator is not fused)",
                        it.extra.len()
                    ));
                }
                cc!(r);
                if it.left != 0 {
                    return Err(format!("extend() stopped early: {} elements not pulled from the iterator", it.left));
                }
                self.model.extend(made);
                if n == 0 {
                    self.model.clear();
                } else if self.model.len() > n {
                    let cut = self.model.len() - n;
                    self.model.drain(..cut);
                }
                Ok(Flow::Done)
            }
            Op::ExtendFromSlice(m) => {
                let src: Vec<Tracked> = (0..*m).map(|_| self.mk()).collect();
                let src_ids: Vec<u32> = src.iter().map(|t| t.raw_id()).collect();
                self.allowed.extend(&src_ids);
                let ids_before = ledger::n_ids();
                let r = {
                    let s = &src[..];
                    self.call(move |b| b.extend_from_slice(s))
                };
                // the source stays with the harness and is destroyed by it, outside the call
                for t in &src {
                    t.peek_id().map_err(|e| format!("extend_from_slice damaged its source: {e}"))?;
                }
                drop(src);
                self.dead_ids.extend(&src_ids);
                cc!(r);
                // expected: clones of the last min(m, n) source elements appended
                let take = (*m as usize).min(n);
                let from = *m as usize - take;
                let total = len + take;
                let cut = total.saturating_sub(n);
                let mut newm: Vec<(u32, u32)> = self.model[cut.min(len)..].to_vec();
                let obs = self.observe()?;
                if obs.len() != (len + take).min(n) {
                    return Err(format!("length {} after extend_from_slice, expected {}", obs.len(), (len + take).min(n)));
                }
                let kept = newm.len();
                for k in 0..take {
                    let o = obs[kept + k];
                    let want = src_ids[from + k];
                    let sl = ledger::slot(o.id).ok_or("unknown id")?;
                    if o.id <= ids_before || sl.origin != want {
                        return Err(format!(
                            "position {} holds id {} (origin {}), expected a fresh clone of source element #{} (id {want})",
                            kept + k, o.id, sl.origin, from + k
                        ));
                    }
                    newm.push((o.id, o.val));
                }
                self.model = newm;
                self.flags |= fl::READ_OR_MOVED;
                Ok(Flow::Done)
            }
            Op::MakeContiguous => {
                let ids = self.model_ids();
                let r = cc!(self.call(move |b| {
                    let s = b.make_contiguous();
                    let addr = s.as_ptr() as usize;
                    let got: Vec<Result<u32, String>> = s.iter().map(|t| t.peek_id()).collect();
                    (addr, got)
                }));
                let (addr, got) = r;
                let got: Vec<u32> = got.into_iter().collect::<Result<_, _>>().map_err(|e| format!("make_contiguous slice: {e}"))?;
                if got != ids {
                    return Err(format!("make_contiguous returned ids {:?}, expected {:?}", got, ids));
                }
                let (s1, s2) = self.b().as_slices();
                if !s2.is_empty() {
                    return Err(format!("after make_contiguous as_slices() still reports two slices ({} + {})", s1.len(), s2.len()));
                }
                if !s1.is_empty() && s1.as_ptr() as usize != addr {
                    return Err("as_slices().0 does not start where the slice returned by make_contiguous started".into());
                }
                self.flags |= fl::READ_OR_MOVED;
                Ok(Flow::Done)
            }
            Op::CloneFrom(s, l) => {
                let l = (*l as usize).min(n);
                let vals: Vec<u32> = (0..l as u32).map(|i| 7000 + i).collect();
                let route = ALL_ROUTES[(self.rnd() % 2) as usize];
                let (src, src_ids) = self.build(n, crate::deq::Ctor::New, route, *s as usize, &vals)?;
                self.allowed.extend(&src_ids);
                let ids_before = ledger::n_ids();
                let r = {
                    let srcr = &*src;
                    self.call(move |b| b.clone_from_dyn(srcr))
                };
                let src_obs = Self::observe_buf(&*src, n).map_err(|e| format!("clone_from source afterwards: {e}"))?;
                let unchanged = src_obs.iter().map(|o| o.id).collect::<Vec<_>>() == src_ids;
                let flow = match r {
                    Called::Ok(()) => {
                        let obs = self.observe()?;
                        if obs.len() != l {
                            return Err(format!("length {} after clone_from, source has {l}", obs.len()));
                        }
                        let mut m = Vec::new();
                        for (k, o) in obs.iter().enumerate() {
                            let sl = ledger::slot(o.id).ok_or("unknown id")?;
                            if o.id <= ids_before || sl.origin != src_ids[k] || o.val != vals[k] {
                                return Err(format!("position {k} holds id {} (origin {}), expected a fresh clone of source id {}", o.id, sl.origin, src_ids[k]));
                            }
                            m.push((o.id, o.val));
                        }
                        self.model = m;
                        Flow::Done
                    }
                    Called::Injected => Flow::Injected,
                    Called::Panic(m) => return Err(format!("unexpected panic: {m}")),
                };
                if !unchanged {
                    return Err("clone_from changed its source".into());
                }
                drop(src);
                self.dead_ids.extend(&src_ids);
                if matches!(flow, Flow::Done) {
                    for (id, _) in &self.model {
                        if !ledger::is_alive(*id) {
                            return Err(format!("dropping the clone_from source destroyed element id={id} of the destination (shared element)"));
                        }
                    }
                }
                self.flags |= fl::READ_OR_MOVED;
                Ok(flow)
            }
            Op::MoveBuf => {
                let b = self.buf.take().unwrap();
                self.buf = Some(b.move_box());
                Ok(Flow::Done)
            }
            Op::DropBuf => {
                let b = self.buf.take().unwrap();
                let r = self.call_free(move || drop(b));
                let ctor = self.ctor;
                self.buf = Some(crate::deq::make_buf::<Tracked>(n, ctor));
                let ids = self.model_ids();
                match r {
                    Called::Ok(()) => {
                        for id in &ids {
                            if ledger::is_alive(*id) {
                                return Err(format!("element id={id} still alive after its buffer was dropped"));
                            }
                        }
                        self.dead_ids.extend(ids);
                        self.model.clear();
                        Ok(Flow::Done)
                    }
                    Called::Injected => Ok(Flow::Injected),
                    Called::Panic(m) => Err(format!("unexpected panic: {m}")),
                }
            }
            other => self.apply_views(other),
        }
    }
}

fn op_tag(op: &Op) -> u64 {
    let mut h = 0xcbf29ce484222325u64;
    for b in op.name().bytes() {
        h ^= b as u64;
        h = h.wrapping_mul(0x100000001b3);
    }
    h
}

/// Documented relocation bound for an operation (None: no bound stated).
fn reloc_bound(op: &Op, before: &[Obs], st: &St) -> Option<usize> {
    let len = before.len();
    match op {
        Op::PushBack | Op::PushFront | Op::TryPushBack | Op::TryPushFront | Op::PopBack | Op::PopFront
        | Op::Swap(..) | Op::SwapRemoveBack(_) | Op::SwapRemoveFront(_) | Op::Read(_) | Op::Views
        | Op::TruncateBack(_) | Op::TruncateFront(_) | Op::Clear => Some(2),
        Op::Set(a, _) | Op::Mutate(a, _) if *a != Acc::MakeContiguous => Some(2),
        Op::Remove(i) => {
            let p = i.resolve(len);
            Some(if p < len { len - p } else { 2 })
        }
        Op::Drain(r, _, End::Drop) => {
            let ra = r.resolve(len);
            let (s, e) = crate::model::range_to_pair(ra.start, ra.end, len);
            if s <= e && e <= len as u128 {
                Some(len - e as usize)
            } else {
                Some(0)
            }
        }
        Op::MakeContiguous => {
            // already contiguous: the occupied slots are one ascending run
            let contiguous = before.windows(2).all(|w| w[1].addr == w[0].addr + ELEM);
            let _ = st;
            if contiguous {
                Some(0)
            } else {
                None
            }
        }
        _ => None,
    }
}
