//! C17: no operation allocates.  A counting global allocator (installed by the binary) counts
//! allocations and reallocations per thread; every crate call is measured individually.
//! This module only uses API that exists in the feature configuration it is compiled for, so
//! the same generated cases run against the crate built with {no default features, alloc, std}.

use circular_buffer::CircularBuffer;
use serde::{Deserialize, Serialize};
use std::alloc::{GlobalAlloc, Layout, System};
use std::cell::Cell;
use std::collections::HashSet;
use std::sync::atomic::{AtomicUsize, Ordering as AO};
use std::sync::Mutex;

thread_local! {
    static ALLOCS: Cell<u64> = const { Cell::new(0) };
    static LIVE_CHEAP: Cell<i64> = const { Cell::new(0) };
}

pub struct Counting;

unsafe impl GlobalAlloc for Counting {
    unsafe fn alloc(&self, l: Layout) -> *mut u8 {
        let _ = ALLOCS.try_with(|c| c.set(c.get() + 1));
        let p = System.alloc(l);
        // fresh pages from the OS are zero, which would hide a forgotten initialisation (for
        // example in `boxed()`): hand out dirty memory instead
        if !p.is_null() {
            const LIMIT: usize = 64 << 20;
            if l.size() <= LIMIT {
                std::ptr::write_bytes(p, 0xA5, l.size());
            } else {
                // multi-gigabyte reservations (capacities around 2^32) are only dirtied at both ends, so that
                // the untouched middle stays unbacked by memory
                std::ptr::write_bytes(p, 0xA5, 1 << 16);
                std::ptr::write_bytes(p.add(l.size() - (1 << 16)), 0xA5, 1 << 16);
            }
        }
        p
    }
    unsafe fn alloc_zeroed(&self, l: Layout) -> *mut u8 {
        let _ = ALLOCS.try_with(|c| c.set(c.get() + 1));
        System.alloc_zeroed(l)
    }
    unsafe fn realloc(&self, p: *mut u8, l: Layout, n: usize) -> *mut u8 {
        let _ = ALLOCS.try_with(|c| c.set(c.get() + 1));
        System.realloc(p, l, n)
    }
    unsafe fn dealloc(&self, p: *mut u8, l: Layout) {
        System.dealloc(p, l)
    }
}

pub fn alloc_count() -> u64 {
    ALLOCS.with(|c| c.get())
}

/// Non-allocating element with Clone and Drop side effects.
#[derive(Debug, PartialEq, Eq, PartialOrd, Ord, Hash)]
pub struct Cheap(pub u32);
impl Cheap {
    pub fn new(v: u32) -> Self {
        LIVE_CHEAP.with(|c| c.set(c.get() + 1));
        Cheap(v)
    }
}
impl Clone for Cheap {
    fn clone(&self) -> Self {
        Cheap::new(self.0)
    }
}
impl Drop for Cheap {
    fn drop(&mut self) {
        LIVE_CHEAP.with(|c| c.set(c.get() - 1));
    }
}

#[derive(Debug, Clone, PartialEq, Eq, Hash, Serialize, Deserialize)]
pub enum AOp {
    PushBack,
    PushFront,
    TryPushBack,
    TryPushFront,
    PopBack,
    PopFront,
    /// position = k * len >> 16 (always in range when len > 0)
    Remove(u16),
    Swap(u16, u16),
    SwapRemoveBack(u16),
    SwapRemoveFront(u16),
    TruncateBack(u16),
    TruncateFront(u16),
    Clear,
    Fill,
    FillWith,
    FillSpare,
    FillSpareWith,
    Extend(u8),
    ExtendFromSlice(u8),
    MakeContiguous,
    /// valid range from two fractions, `steps` alternating next/next_back, then drop
    Drain(u16, u16, u8),
    IterWalk(u16, u16, u8),
    IterMutWalk(u16, u16, u8),
    Access(u16),
    Compare,
    HashFmt,
    CloneBuf,
    CloneFrom(u8),
    FromArray,
    FromIter(u8),
    IntoIter(u8),
    /// out-of-range arguments that are documented not to panic
    OutOfRange,
    ByteIo(u8),
}

#[derive(Debug, Clone, PartialEq, Eq, Hash, Serialize, Deserialize)]
pub struct ACase {
    pub n: u32,
    pub start: u32,
    pub len: u32,
    pub ops: Vec<AOp>,
}

impl ACase {
    pub fn render(&self) -> String {
        format!("N={} layout(start={},len={}) ops={:?}", self.n, self.start, self.len, self.ops)
    }
}

struct Sink(usize);
impl core::fmt::Write for Sink {
    fn write_str(&mut self, s: &str) -> core::fmt::Result {
        self.0 += s.len();
        Ok(())
    }
}

/// FNV hasher: no allocation, no std dependency beyond the trait.
struct Fnv(u64);
impl core::hash::Hasher for Fnv {
    fn finish(&self) -> u64 {
        self.0
    }
    fn write(&mut self, b: &[u8]) {
        for x in b {
            self.0 = (self.0 ^ *x as u64).wrapping_mul(0x100000001b3);
        }
    }
}

macro_rules! measured {
    ($what:expr, $moved:expr, $e:expr) => {{
        let before = alloc_count();
        let r = $e;
        let after = alloc_count();
        if after != before {
            return Err(format!("{} performed {} heap allocation(s)", $what, after - before));
        }
        if $moved {
            MOVED.with(|m| m.set(true));
        }
        r
    }};
}

thread_local! {
    static MOVED: Cell<bool> = const { Cell::new(false) };
}

fn pos(k: u16, len: usize) -> usize {
    ((k as usize) * len) >> 16
}

fn run_generic<const N: usize>(c: &ACase) -> Result<u64, String> {
    use core::fmt::Write as _;
    use core::hash::Hash as _;
    MOVED.with(|m| m.set(false));
    let mut nontrivial = 0u64;
    let mut ctr = 100u32;
    let mut mk = move || {
        ctr += 1;
        Cheap::new(ctr)
    };
    // setup is not measured
    let mut buf = CircularBuffer::<N, Cheap>::new();
    if N > 0 {
        for _ in 0..(c.start as usize % N) {
            buf.push_back(mk());
        }
        for _ in 0..(c.start as usize % N) {
            buf.pop_front();
        }
        for _ in 0..(c.len as usize).min(N) {
            buf.push_back(mk());
        }
    }
    let spare: Vec<Cheap> = (0..2 * N + 2).map(|_| mk()).collect();
    for (i, op) in c.ops.iter().enumerate() {
        MOVED.with(|m| m.set(false));
        let len = buf.len();
        let r: Result<(), String> = (|| {
            match op {
                AOp::PushBack => {
                    let x = mk();
                    let r = measured!("push_back", true, buf.push_back(x));
                    measured!("dropping the displaced element", false, drop(r));
                }
                AOp::PushFront => {
                    let x = mk();
                    let r = measured!("push_front", true, buf.push_front(x));
                    measured!("dropping the displaced element", false, drop(r));
                }
                AOp::TryPushBack => {
                    let x = mk();
                    let _ = measured!("try_push_back", true, buf.try_push_back(x));
                }
                AOp::TryPushFront => {
                    let x = mk();
                    let _ = measured!("try_push_front", true, buf.try_push_front(x));
                }
                AOp::PopBack => {
                    let _ = measured!("pop_back", len > 0, buf.pop_back());
                }
                AOp::PopFront => {
                    let _ = measured!("pop_front", len > 0, buf.pop_front());
                }
                AOp::Remove(k) => {
                    let _ = measured!("remove", len > 0, buf.remove(pos(*k, len)));
                }
                AOp::Swap(a, b) => {
                    if len > 0 {
                        measured!("swap", true, buf.swap(pos(*a, len), pos(*b, len)));
                    }
                }
                AOp::SwapRemoveBack(k) => {
                    let _ = measured!("swap_remove_back", len > 0, buf.swap_remove_back(pos(*k, len)));
                }
                AOp::SwapRemoveFront(k) => {
                    let _ = measured!("swap_remove_front", len > 0, buf.swap_remove_front(pos(*k, len)));
                }
                AOp::TruncateBack(k) => measured!("truncate_back", len > 0, buf.truncate_back(pos(*k, len + 1))),
                AOp::TruncateFront(k) => measured!("truncate_front", len > 0, buf.truncate_front(pos(*k, len + 1))),
                AOp::Clear => measured!("clear", len > 0, buf.clear()),
                AOp::Fill => {
                    let x = mk();
                    measured!("fill", N > 0, buf.fill(x));
                }
                AOp::FillSpare => {
                    let x = mk();
                    measured!("fill_spare", N > len, buf.fill_spare(x));
                }
                AOp::FillWith => measured!("fill_with", N > 0, buf.fill_with(|| Cheap::new(7))),
                AOp::FillSpareWith => measured!("fill_spare_with", N > len, buf.fill_spare_with(|| Cheap::new(8))),
                AOp::Extend(m) => {
                    let m = *m as u32;
                    measured!("extend", m > 0 && N > 0, buf.extend((0..m).map(Cheap::new)));
                }
                AOp::ExtendFromSlice(m) => {
                    let m = (*m as usize).min(spare.len());
                    measured!("extend_from_slice", m > 0 && N > 0, buf.extend_from_slice(&spare[..m]));
                }
                AOp::MakeContiguous => {
                    let _ = measured!("make_contiguous", len > 0, buf.make_contiguous().len());
                }
                AOp::Drain(a, b, steps) => {
                    let (x, y) = (pos(*a, len + 1), pos(*b, len + 1));
                    let (x, y) = if x <= y { (x, y) } else { (y, x) };
                    let mut d = measured!("drain()", false, buf.drain(x..y));
                    for k in 0..*steps {
                        let e = measured!("Drain::next/next_back", true, if k % 2 == 0 { d.next() } else { d.next_back() });
                        let _ = measured!("Drain::len/size_hint", false, (d.len(), d.size_hint()));
                        measured!("dropping a drained element", false, drop(e));
                    }
                    let mut s = Sink(0);
                    let _ = measured!("Drain as Debug", false, write!(s, "{:?}", d));
                    let _ = measured!("Drain as Debug with width / precision / flags", false, write!(s, "{:6?} {:<3?} {:#2?} {:04x?} {:.1?}", d, d, d, d, d));
                    measured!("dropping the Drain", y > x, drop(d));
                }
                AOp::IterWalk(a, b, steps) => {
                    let (x, y) = (pos(*a, len + 1), pos(*b, len + 1));
                    let (x, y) = if x <= y { (x, y) } else { (y, x) };
                    let mut it = measured!("range()", false, buf.range(x..y));
                    let mut it2 = measured!("Iter::clone", false, it.clone());
                    for k in 0..*steps {
                        let _ = measured!("Iter::next/next_back", true, if k % 2 == 0 { it.next().map(|c| c.0) } else { it.next_back().map(|c| c.0) });
                    }
                    let _ = measured!("Iter::nth/len", false, (it2.nth(1).map(|c| c.0), it2.len(), it2.nth_back(1).map(|c| c.0)));
                    let _ = measured!("iter() / (&buf).into_iter()", len > 0, (buf.iter().count(), (&buf).into_iter().rev().count()));
                    let mut s = Sink(0);
                    let _ = measured!("Iter as Debug", false, write!(s, "{:?}", buf.iter()));
                    let _ = measured!("Iter as Debug with width / precision / flags", false, write!(s, "{:6?} {:<3?} {:#2?} {:04x?} {:.1?}", buf.iter(), buf.iter(), buf.iter(), buf.iter(), buf.iter()));
                }
                AOp::IterMutWalk(a, b, steps) => {
                    let (x, y) = (pos(*a, len + 1), pos(*b, len + 1));
                    let (x, y) = if x <= y { (x, y) } else { (y, x) };
                    let mut it = measured!("range_mut()", false, buf.range_mut(x..y));
                    for k in 0..*steps {
                        measured!("IterMut::next/next_back", true, {
                            if let Some(e) = if k % 2 == 0 { it.next() } else { it.next_back() } {
                                e.0 = e.0.wrapping_add(1);
                            }
                        });
                    }
                    drop(it);
                    measured!("iter_mut()", len > 0, buf.iter_mut().for_each(|e| e.0 ^= 1));
                    let (s1, s2) = measured!("as_mut_slices", len > 0, buf.as_mut_slices());
                    let _ = s1.len() + s2.len();
                }
                AOp::Access(k) => {
                    let p = pos(*k, len);
                    let _ = measured!("element access", len > 0, {
                        let a = buf.get(p).map(|c| c.0);
                        let b = buf.nth_front(p).map(|c| c.0);
                        let d = buf.nth_back(p).map(|c| c.0);
                        let e = (buf.front().map(|c| c.0), buf.back().map(|c| c.0));
                        let f = if len > 0 { buf[p].0 } else { 0 };
                        if let Some(m) = buf.get_mut(p) {
                            m.0 ^= 2;
                        }
                        if let Some(m) = buf.front_mut() {
                            m.0 ^= 4;
                        }
                        if let Some(m) = buf.back_mut() {
                            m.0 ^= 4;
                        }
                        if let Some(m) = buf.nth_back_mut(p) {
                            m.0 ^= 8;
                        }
                        if let Some(m) = buf.nth_front_mut(p) {
                            m.0 ^= 8;
                        }
                        if len > 0 {
                            buf[p].0 ^= 16;
                        }
                        let (s1, s2) = buf.as_slices();
                        (a, b, d, e, f, s1.len(), s2.len(), buf.len(), buf.is_empty(), buf.is_full(), buf.capacity())
                    });
                }
                AOp::Compare => {
                    let other = buf.clone();
                    let _ = measured!("==, partial_cmp, cmp", len > 0, {
                        let (s1, _) = other.as_slices();
                        (buf == other, buf.partial_cmp(&other), buf.cmp(&other), buf == *s1, buf == s1)
                    });
                }
                AOp::HashFmt => {
                    let mut h = Fnv(0xcbf29ce484222325);
                    measured!("Hash", len > 0, buf.hash(&mut h));
                    let mut s = Sink(0);
                    let _ = measured!("Debug", len > 0, write!(s, "{:?} {:#?}", buf, buf));
                    let _ = measured!("Debug with width / precision / flags", len > 0, write!(s, "{:6?} {:<3?} {:>40?} {:#2?} {:04x?} {:.1?} {:^+9X?}", buf, buf, buf, buf, buf, buf, buf));
                }
                AOp::CloneBuf => {
                    let c2 = measured!("clone", len > 0, buf.clone());
                    measured!("dropping the clone", len > 0, drop(c2));
                }
                AOp::CloneFrom(m) => {
                    let mut src = CircularBuffer::<N, Cheap>::new();
                    for _ in 0..(*m as usize).min(N) {
                        src.push_back(mk());
                    }
                    measured!("clone_from", true, buf.clone_from(&src));
                }
                AOp::FromArray => {
                    let arr = [mk(), mk(), mk()];
                    let b2 = measured!("From<[T; 3]>", true, CircularBuffer::<N, Cheap>::from(arr));
                    measured!("dropping a buffer", true, drop(b2));
                    let b3 = measured!("new/default", false, (CircularBuffer::<N, Cheap>::new(), CircularBuffer::<N, Cheap>::default()));
                    drop(b3);
                }
                AOp::FromIter(m) => {
                    let m = *m as u32;
                    let b2 = measured!("from_iter", m > 0, (0..m).map(Cheap::new).collect::<CircularBuffer<N, Cheap>>());
                    drop(b2);
                }
                AOp::IntoIter(steps) => {
                    let old = core::mem::replace(&mut buf, CircularBuffer::new());
                    let mut it = measured!("into_iter", false, old.into_iter());
                    for k in 0..*steps {
                        let e = measured!("IntoIter::next/next_back", true, if k % 2 == 0 { it.next() } else { it.next_back() });
                        let _ = measured!("IntoIter::len", false, it.len());
                        drop(e);
                    }
                    let it2 = measured!("IntoIter::clone", false, it.clone());
                    let mut s = Sink(0);
                    let _ = measured!("IntoIter as Debug", false, write!(s, "{:?}", it2));
                    let _ = measured!("IntoIter as Debug with width / precision / flags", false, write!(s, "{:6?} {:<3?} {:#2?} {:04x?} {:.1?}", it2, it2, it2, it2, it2));
                    measured!("dropping the IntoIter", len > 0, drop((it, it2)));
                }
                AOp::OutOfRange => {
                    let _ = measured!("out-of-range arguments", false, {
                        (
                            buf.get(len).is_some(),
                            buf.get(usize::MAX).is_some(),
                            buf.nth_back(usize::MAX).is_some(),
                            buf.remove(len).is_some(),
                            buf.remove(usize::MAX).is_some(),
                            buf.swap_remove_back(usize::MAX).is_some(),
                            buf.swap_remove_front(len).is_some(),
                        )
                    });
                    measured!("truncate beyond the length", false, {
                        buf.truncate_back(usize::MAX);
                        buf.truncate_front(len + 1);
                    });
                }
                AOp::ByteIo(m) => {
                    #[cfg(feature = "cb-std")]
                    {
                        use std::io::{BufRead, Read, Write};
                        let m = *m as usize;
                        let mut bb = CircularBuffer::<N, u8>::new();
                        let src = [7u8; 40];
                        let mut dst = [0u8; 40];
                        let _ = measured!("io::Write::write", m > 0, bb.write(&src[..m.min(40)]));
                        let _ = measured!("io::Write::flush", false, bb.flush());
                        let _ = measured!("io::BufRead::fill_buf", false, bb.fill_buf().map(|s| s.len()));
                        measured!("io::BufRead::consume", N > 0 && m > 0, bb.consume(1));
                        let _ = measured!("io::Read::read", N > 1 && m > 1, bb.read(&mut dst[..m.min(40)]));
                        let _ = measured!("Extend<&u8>", m > 0, bb.extend(src[..m.min(40)].iter()));
                        // the provided methods of the std traits too, on a rotated buffer; the error paths
                        // (short read_exact) must not allocate either
                        for _ in 0..(c.start as usize) % (N + 1) {
                            bb.push_back(1);
                            bb.pop_front();
                        }
                        let _ = measured!("io::Write::write_all", m > 0, bb.write_all(&src[..m.min(40)]));
                        let have = bb.len();
                        let _ = measured!("io::Read::read_exact (enough bytes)", have > 1, bb.read_exact(&mut dst[..(have / 2).min(40)]));
                        let _ = measured!("io::Write::write_fmt", false, write!(bb, "{}-{}", m, "x"));
                        let have = bb.len();
                        let short = measured!("io::Read::read_exact (too few bytes)", false, bb.read_exact(&mut dst[..(have + 1).min(40)]));
                        if have < 40 && short.is_ok() {
                            return Err("harness self-check: read_exact beyond the contents succeeded".into());
                        }
                        measured!("dropping the read_exact error", false, drop(short));
                        let _ = measured!("io::Write::write_vectored", m > 0, {
                            let bufs = [std::io::IoSlice::new(&src[..m.min(40)]), std::io::IoSlice::new(&src[..3])];
                            bb.write_vectored(&bufs)
                        });
                        let _ = measured!("io::Read::read_vectored", N > 0, {
                            let (d1, d2) = dst.split_at_mut(2);
                            let mut bufs = [std::io::IoSliceMut::new(d1), std::io::IoSliceMut::new(&mut d2[..m.min(30)])];
                            bb.read_vectored(&mut bufs)
                        });
                        let _ = measured!("io::Read::bytes", false, Read::by_ref(&mut bb).bytes().take(2).filter(|r| r.is_ok()).count());
                        let _ = bb.write(&src[..m.min(40)]);
                        let _ = measured!("io::copy into a sink", N > 0 && m > 0, std::io::copy(&mut bb, &mut std::io::sink()));
                        let _ = measured!("io::Read::take + read", false, Read::by_ref(&mut bb).take(3).read(&mut dst[..5]));
                        // text-oriented provided methods: valid text, and invalid UTF-8 (their error paths must not allocate);
                        // the destination has its capacity reserved outside the measured window
                        let mut text = String::with_capacity(256);
                        bb.clear();
                        let _ = bb.write(b"ab\ncd");
                        let _ = measured!("io::BufRead::read_line (valid text)", N > 0, bb.read_line(&mut text));
                        let _ = measured!("io::Read::read_to_string (valid text)", false, bb.read_to_string(&mut text));
                        bb.clear();
                        let _ = bb.write(b"a\xffb\nyo\xc3");
                        let e1 = measured!("io::BufRead::read_line (invalid UTF-8)", false, bb.read_line(&mut text));
                        let e2 = measured!("io::Read::read_to_string (invalid UTF-8)", false, bb.read_to_string(&mut text));
                        if N >= 8 && (e1.is_ok() || e2.is_ok()) {
                            return Err("harness self-check: invalid UTF-8 was accepted as text".into());
                        }
                        measured!("dropping the text errors", false, drop((e1, e2)));
                        let mut sink = Vec::with_capacity(256);
                        let _ = bb.write(b"xyz\nq");
                        let _ = measured!("io::BufRead::read_until", false, bb.read_until(b'\n', &mut sink));
                        let _ = measured!("io::BufRead::skip_until", false, bb.skip_until(b'q'));
                        let _ = measured!("io::BufRead::has_data_left-like fill_buf", false, bb.fill_buf().map(|s| s.is_empty()));
                    }
                    #[cfg(not(feature = "cb-std"))]
                    {
                        let m = *m as usize;
                        let mut bb = CircularBuffer::<N, u8>::new();
                        let src = [7u8; 40];
                        let _ = measured!("Extend<&u8>", m > 0, bb.extend(src[..m.min(40)].iter()));
                        let _ = measured!("extend_from_slice (u8)", m > 0, bb.extend_from_slice(&src[..m.min(40)]));
                    }
                }
            }
            Ok(())
        })();
        r.map_err(|e| format!("op #{i} {op:?}: {e}"))?;
        if MOVED.with(|m| m.get()) {
            nontrivial |= 1;
        }
    }
    drop(buf);
    drop(spare);
    let live = LIVE_CHEAP.with(|c| c.get());
    if live != 0 {
        return Err(format!("harness self-check: {live} Cheap elements alive at the end of the case"));
    }
    Ok(nontrivial)
}

pub const ACAPS: [usize; 19] = [0, 1, 2, 3, 4, 5, 6, 8, 16, 33, 64, 65, 100, 128, 129, 1000, 1025, 4096, 20000];

pub fn run_acase(c: &ACase) -> Result<u64, String> {
    match c.n {
        0 => run_generic::<0>(c),
        1 => run_generic::<1>(c),
        2 => run_generic::<2>(c),
        3 => run_generic::<3>(c),
        4 => run_generic::<4>(c),
        5 => run_generic::<5>(c),
        6 => run_generic::<6>(c),
        8 => run_generic::<8>(c),
        16 => run_generic::<16>(c),
        33 => run_generic::<33>(c),
        64 => run_generic::<64>(c),
        65 => run_generic::<65>(c),
        100 => run_generic::<100>(c),
        128 => run_generic::<128>(c),
        129 => run_generic::<129>(c),
        1000 => run_generic::<1000>(c),
        1025 => run_generic::<1025>(c),
        4096 => run_generic::<4096>(c),
        20000 => run_generic::<20000>(c),
        n => Err(format!("capacity {n} not in table")),
    }
}

pub fn enum_ops(n: usize, len: usize) -> Vec<AOp> {
    let fr = |i: usize, of: usize| -> u16 { if of == 0 { 0 } else { ((i * 65536 + 65535) / of).min(65535) as u16 } };
    let mut ops = vec![
        AOp::PushBack, AOp::PushFront, AOp::TryPushBack, AOp::TryPushFront, AOp::PopBack, AOp::PopFront, AOp::Clear, AOp::Fill,
        AOp::FillWith, AOp::FillSpare, AOp::FillSpareWith, AOp::MakeContiguous, AOp::Compare, AOp::HashFmt, AOp::CloneBuf,
        AOp::FromArray, AOp::OutOfRange,
    ];
    for i in 0..len.max(1) {
        let k = fr(i, len);
        ops.push(AOp::Remove(k));
        ops.push(AOp::SwapRemoveBack(k));
        ops.push(AOp::SwapRemoveFront(k));
        ops.push(AOp::Access(k));
        for j in 0..len.max(1) {
            ops.push(AOp::Swap(k, fr(j, len)));
        }
    }
    for i in 0..=len {
        ops.push(AOp::TruncateBack(fr(i, len + 1)));
        ops.push(AOp::TruncateFront(fr(i, len + 1)));
        for j in i..=len {
            for steps in [0u8, 1, 2, (j - i) as u8 + 1] {
                ops.push(AOp::Drain(fr(i, len + 1), fr(j, len + 1), steps));
            }
            ops.push(AOp::IterWalk(fr(i, len + 1), fr(j, len + 1), (j - i) as u8 + 1));
            ops.push(AOp::IterMutWalk(fr(i, len + 1), fr(j, len + 1), (j - i) as u8 + 1));
        }
    }
    for m in 0..=(2 * n + 1).min(40) as u8 {
        ops.push(AOp::Extend(m));
        ops.push(AOp::ExtendFromSlice(m));
        ops.push(AOp::FromIter(m));
        ops.push(AOp::ByteIo(m));
    }
    for m in 0..=n.min(40) as u8 {
        ops.push(AOp::CloneFrom(m));
        ops.push(AOp::IntoIter(m));
    }
    ops
}

#[derive(Default)]
pub struct AStats {
    pub evaluations: u64,
    pub nontrivial: HashSet<u64>,
    pub samples: Vec<String>,
    pub by_op: std::collections::BTreeMap<String, u64>,
}

fn ahash(c: &ACase) -> u64 {
    use std::hash::{Hash, Hasher};
    let mut h = std::collections::hash_map::DefaultHasher::new();
    c.hash(&mut h);
    h.finish()
}

impl AStats {
    fn note(&mut self, c: &ACase, f: u64) {
        self.evaluations += 1;
        if let Some(op) = c.ops.first() {
            let name = format!("{op:?}");
            *self.by_op.entry(name.split('(').next().unwrap().to_string()).or_default() += 1;
        }
        if f != 0 {
            let h = ahash(c);
            self.nontrivial.insert(h);
            if self.samples.len() < 3 || (h % 10007 == 1 && self.samples.len() < 10) {
                self.samples.push(c.render());
            }
        }
    }
    fn merge(&mut self, o: AStats) {
        self.evaluations += o.evaluations;
        self.nontrivial.extend(o.nontrivial);
        self.samples.extend(o.samples);
        for (k, v) in o.by_op {
            *self.by_op.entry(k).or_default() += v;
        }
    }
}

pub fn acase_strategy(max_ops: usize) -> proptest::strategy::BoxedStrategy<ACase> {
    use proptest::prelude::*;
    let op = prop_oneof![
        Just(AOp::PushBack), Just(AOp::PushBack), Just(AOp::PushFront), Just(AOp::TryPushBack), Just(AOp::TryPushFront),
        Just(AOp::PopBack), Just(AOp::PopFront), any::<u16>().prop_map(AOp::Remove),
        (any::<u16>(), any::<u16>()).prop_map(|(a, b)| AOp::Swap(a, b)), any::<u16>().prop_map(AOp::SwapRemoveBack),
        any::<u16>().prop_map(AOp::SwapRemoveFront), any::<u16>().prop_map(AOp::TruncateBack), any::<u16>().prop_map(AOp::TruncateFront),
        Just(AOp::Clear), Just(AOp::Fill), Just(AOp::FillWith), Just(AOp::FillSpare), Just(AOp::FillSpareWith),
        (0u8..40).prop_map(AOp::Extend), (0u8..40).prop_map(AOp::ExtendFromSlice), Just(AOp::MakeContiguous),
        (any::<u16>(), any::<u16>(), 0u8..6).prop_map(|(a, b, s)| AOp::Drain(a, b, s)),
        (any::<u16>(), any::<u16>(), 0u8..6).prop_map(|(a, b, s)| AOp::IterWalk(a, b, s)),
        (any::<u16>(), any::<u16>(), 0u8..6).prop_map(|(a, b, s)| AOp::IterMutWalk(a, b, s)),
        any::<u16>().prop_map(AOp::Access), Just(AOp::Compare), Just(AOp::HashFmt), Just(AOp::CloneBuf),
        (0u8..40).prop_map(AOp::CloneFrom), Just(AOp::FromArray), (0u8..40).prop_map(AOp::FromIter), (0u8..6).prop_map(AOp::IntoIter),
        Just(AOp::OutOfRange), (0u8..40).prop_map(AOp::ByteIo),
    ];
    (proptest::sample::select(ACAPS.to_vec()), any::<u16>(), any::<u16>(), proptest::collection::vec(op, 0..=max_ops))
        .prop_map(|(n, s, l, ops)| ACase {
            n: n as u32,
            start: if n == 0 { 0 } else { ((s as usize * n) >> 16) as u32 },
            len: ((l as usize * (n + 1)) >> 16) as u32,
            ops,
        })
        .boxed()
}

pub fn run_alloc(thorough: bool, seed: u64, threads: usize, prop_cases: u32) -> (AStats, AStats, Option<(ACase, String, &'static str)>) {
    let caps: Vec<usize> = if thorough { vec![0, 1, 2, 3, 4, 5, 6, 8] } else { vec![0, 1, 2, 3, 4, 5, 6] };
    let mut units = Vec::new();
    for n in caps {
        for len in 0..=n {
            for start in 0..n.max(1) {
                units.push((n, start, len));
            }
        }
    }
    let next = AtomicUsize::new(0);
    let fail_at = AtomicUsize::new(usize::MAX);
    let found: Mutex<Vec<(usize, ACase, String)>> = Mutex::new(Vec::new());
    let total = Mutex::new(AStats::default());
    std::thread::scope(|s| {
        for _ in 0..threads {
            s.spawn(|| {
                let mut st = AStats::default();
                loop {
                    let u = next.fetch_add(1, AO::SeqCst);
                    if u >= units.len() || u > fail_at.load(AO::SeqCst) {
                        break;
                    }
                    let (n, start, len) = units[u];
                    for op in enum_ops(n, len) {
                        let c = ACase { n: n as u32, start: start as u32, len: len as u32, ops: vec![op] };
                        crate::watch::tick();
                        match run_acase(&c) {
                            Ok(f) => st.note(&c, f),
                            Err(m) => {
                                fail_at.fetch_min(u, AO::SeqCst);
                                found.lock().unwrap().push((u, c, m));
                                break;
                            }
                        }
                    }
                }
                total.lock().unwrap().merge(st);
            });
        }
    });
    let mut f = found.into_inner().unwrap();
    f.sort_by_key(|x| x.0);
    let es = total.into_inner().unwrap();
    if let Some((_, c, m)) = f.into_iter().next() {
        return (es, AStats::default(), Some((c, m, "enumerative")));
    }
    use proptest::test_runner::{Config, RngAlgorithm, RngSeed, TestCaseError, TestError, TestRng, TestRunner};
    let found: Mutex<Vec<(usize, ACase, String)>> = Mutex::new(Vec::new());
    let total = Mutex::new(AStats::default());
    std::thread::scope(|s| {
        for t in 0..threads {
            let (found, total) = (&found, &total);
            s.spawn(move || {
                let mut sb = [0u8; 32];
                sb[..8].copy_from_slice(&seed.to_le_bytes());
                sb[8..16].copy_from_slice(&(t as u64 + 7000).to_le_bytes());
                let cfg = Config { cases: prop_cases / threads as u32 + 1, failure_persistence: None, max_shrink_iters: 10000, rng_seed: RngSeed::Fixed(seed), ..Config::default() };
                let mut runner = TestRunner::new_with_rng(cfg, TestRng::from_seed(RngAlgorithm::ChaCha, &sb));
                let st = std::cell::RefCell::new(AStats::default());
                let failed = std::cell::Cell::new(false);
                let res = runner.run(&acase_strategy(40), |c| match { crate::watch::tick(); run_acase(&c) } {
                    Ok(f) => {
                        if !failed.get() {
                            st.borrow_mut().note(&c, f);
                        }
                        Ok(())
                    }
                    Err(m) => {
                        failed.set(true);
                        Err(TestCaseError::fail(m))
                    }
                });
                if let Err(TestError::Fail(r, c)) = res {
                    found.lock().unwrap().push((t, c, r.message().to_string()));
                }
                total.lock().unwrap().merge(st.into_inner());
            });
        }
    });
    let mut f = found.into_inner().unwrap();
    f.sort_by_key(|x| x.0);
    (es, total.into_inner().unwrap(), f.into_iter().next().map(|(_, c, m)| (c, m, "proptest")))
}
