//! Minimal progress watchdog for the engines that have no per-worker breadcrumbs.
use std::sync::atomic::{AtomicBool, AtomicU64, Ordering};

pub static TICK: AtomicU64 = AtomicU64::new(0);
static DONE: AtomicBool = AtomicBool::new(false);

#[inline]
pub fn tick() {
    TICK.fetch_add(1, Ordering::Relaxed);
}

pub fn done() {
    DONE.store(true, Ordering::SeqCst);
}

/// Exits with status 71 if no case completes for `secs` seconds (cases take microseconds).
pub fn start(secs: u64) {
    std::thread::spawn(move || {
        let mut last = TICK.load(Ordering::Relaxed);
        let mut stuck = 0;
        loop {
            std::thread::sleep(std::time::Duration::from_secs(1));
            if DONE.load(Ordering::SeqCst) {
                return;
            }
            let now = TICK.load(Ordering::Relaxed);
            if now == last {
                stuck += 1;
                if stuck >= secs {
                    eprintln!("HANG: no case completed for {secs} s");
                    std::process::exit(71);
                }
            } else {
                stuck = 0;
                last = now;
            }
        }
    });
}
