//! Parallel execution of the generated case spaces, statistics for evidence, crash / hang
//! breadcrumbs, and shrinking (DESIGN 2.3, 2.7, 2.8).

use crate::case::*;
use crate::props::{case_hash, exec_item, exec_replay, Item, Prop};
use proptest::test_runner::{Config, RngAlgorithm, RngSeed, TestCaseError, TestError, TestRng, TestRunner};
use std::collections::{BTreeMap, HashSet};
use std::sync::atomic::{AtomicBool, AtomicI32, AtomicPtr, AtomicU64, AtomicUsize, Ordering};
use std::sync::Mutex;

pub const MAX_WORKERS: usize = 64;
static CUR: [AtomicPtr<Case>; MAX_WORKERS] = [const { AtomicPtr::new(std::ptr::null_mut()) }; MAX_WORKERS];
static PROGRESS: [AtomicU64; MAX_WORKERS] = [const { AtomicU64::new(0) }; MAX_WORKERS];
static CRASH_FD: AtomicI32 = AtomicI32::new(-1);
static DONE: AtomicBool = AtomicBool::new(false);

thread_local! {
    static WORKER: std::cell::Cell<usize> = const { std::cell::Cell::new(0) };
}

pub fn set_worker(i: usize) {
    WORKER.with(|w| w.set(i % MAX_WORKERS));
}

/// Registers the case the current worker is about to run (breadcrumb for crashes and hangs).
pub fn set_current(c: Option<&Case>) {
    let i = WORKER.with(|w| w.get());
    CUR[i].store(c.map(|c| c as *const Case as *mut Case).unwrap_or(std::ptr::null_mut()), Ordering::SeqCst);
    PROGRESS[i].fetch_add(1, Ordering::Relaxed);
}

fn dump_current(tag: &str) {
    let fd = CRASH_FD.load(Ordering::SeqCst);
    if fd < 0 {
        return;
    }
    for (i, c) in CUR.iter().enumerate() {
        let p = c.load(Ordering::SeqCst);
        if !p.is_null() {
            // SAFETY: the pointer was set by the worker from a case that is alive while it runs;
            // the process is about to die, workers may race but we only read.
            let json = unsafe { (*p).to_json() };
            let line = format!("{tag} worker={i} {json}\n");
            unsafe {
                libc::write(fd, line.as_ptr() as *const libc::c_void, line.len());
            }
        }
    }
}

extern "C" fn on_signal(sig: libc::c_int) {
    // only the crashing thread's case matters, but all are written; the driver replays each
    let me = WORKER.with(|w| w.get());
    let fd = CRASH_FD.load(Ordering::SeqCst);
    if fd >= 0 {
        let line = format!("SIGNAL {sig} in worker={me}\n");
        unsafe {
            libc::write(fd, line.as_ptr() as *const libc::c_void, line.len());
        }
    }
    dump_current("CRASH");
    unsafe { libc::_exit(70) }
}

/// Installs the crash handler and the hang watchdog; `path` receives the breadcrumbs.
pub fn install_guards(path: &str, hang_secs: u64) {
    let cpath = std::ffi::CString::new(path).unwrap();
    let fd = unsafe { libc::open(cpath.as_ptr(), libc::O_WRONLY | libc::O_CREAT | libc::O_TRUNC, 0o644) };
    CRASH_FD.store(fd, Ordering::SeqCst);
    for s in [libc::SIGSEGV, libc::SIGABRT, libc::SIGBUS, libc::SIGILL, libc::SIGFPE] {
        unsafe {
            libc::signal(s, on_signal as *const () as usize);
        }
    }
    std::thread::spawn(move || {
        let mut last = [0u64; MAX_WORKERS];
        let mut stuck = [0u64; MAX_WORKERS];
        loop {
            std::thread::sleep(std::time::Duration::from_secs(1));
            if DONE.load(Ordering::SeqCst) {
                return;
            }
            for i in 0..MAX_WORKERS {
                let p = PROGRESS[i].load(Ordering::Relaxed);
                let busy = !CUR[i].load(Ordering::SeqCst).is_null();
                if busy && p == last[i] {
                    stuck[i] += 1;
                    if stuck[i] >= hang_secs {
                        let fd = CRASH_FD.load(Ordering::SeqCst);
                        let p = CUR[i].load(Ordering::SeqCst);
                        if fd >= 0 && !p.is_null() {
                            let json = unsafe { (*p).to_json() };
                            let line = format!("HANG worker={i} {json}\n");
                            unsafe {
                                libc::write(fd, line.as_ptr() as *const libc::c_void, line.len());
                            }
                        }
                        unsafe { libc::_exit(71) }
                    }
                } else {
                    stuck[i] = 0;
                    last[i] = p;
                }
            }
        }
    });
}

/// Writes a failing case to the breadcrumb file at once, so that it is not lost if another worker
/// hangs or the process dies before the report is written.
pub fn note_failure(case: &Case) {
    let fd = CRASH_FD.load(Ordering::SeqCst);
    if fd >= 0 {
        let line = format!("FAIL worker={} {}\n", WORKER.with(|w| w.get()), case.to_json());
        unsafe {
            libc::write(fd, line.as_ptr() as *const libc::c_void, line.len());
        }
    }
}

pub fn guards_done() {
    DONE.store(true, Ordering::SeqCst);
}

#[derive(Default)]
pub struct Stats {
    pub evaluations: u64,
    pub nontrivial: HashSet<u64>,
    pub by_op: BTreeMap<&'static str, u64>,
    pub flag_counts: [u64; 32],
    pub by_cap: BTreeMap<u32, u64>,
    pub samples: Vec<String>,
    pub digest: u64,
}

impl Stats {
    pub fn merge(&mut self, o: Stats) {
        self.evaluations += o.evaluations;
        self.nontrivial.extend(o.nontrivial);
        for (k, v) in o.by_op {
            *self.by_op.entry(k).or_default() += v;
        }
        for i in 0..32 {
            self.flag_counts[i] += o.flag_counts[i];
        }
        for (k, v) in o.by_cap {
            *self.by_cap.entry(k).or_default() += v;
        }
        self.samples.extend(o.samples);
        self.digest ^= o.digest;
    }
    fn note(&mut self, prop: Prop, item: &Item, runs: &[(u64, u64)]) {
        for (h, f) in runs {
            self.evaluations += 1;
            if prop.nontrivial(&item.case, *f) {
                self.nontrivial.insert(*h);
            }
            for i in 0..32 {
                if f & (1 << i) != 0 {
                    self.flag_counts[i] += 1;
                }
            }
        }
        if let Some(op) = item.case.ops.first() {
            *self.by_op.entry(op.name()).or_default() += runs.len() as u64;
        } else {
            *self.by_op.entry("final_drop_only").or_default() += runs.len() as u64;
        }
        *self.by_cap.entry(item.case.n).or_default() += runs.len() as u64;
        // a few samples: chosen by hash so that they are spread over the space
        if let Some((h, _)) = runs.first() {
            if self.samples.len() < 3 || (h % 50021 == 7 && self.samples.len() < 12) {
                self.samples.push(item.case.render());
            }
        }
    }
}

pub const FLAG_NAMES: [&str; 27] = [
    "changed_contents", "returned_some_or_err", "buffer_full_at_push", "occupied_range_wrapped", "free_space_split",
    "had_unoccupied_slot", "destroyed_element", "handed_out_element", "fault_fired", "mixed_directions",
    "selection_crosses_wrap", "drain_with_tail_behind_hole", "forget_after_yield", "boundary_argument",
    "documented_panic", "zero_capacity", "layout_not_reached", "read_or_moved_elements", "len_ge_3", "non_empty",
    "elements_outside_range", "leak_observed_(permitted)", "drain_forgotten", "op_skipped", "capacity_le_1",
    "source_non_empty", "user_panic_non_drop",
];

#[derive(Debug, Clone)]
pub struct Found {
    pub order: (usize, usize),
    pub case: Case,
    pub msg: String,
}

pub fn enum_units(prop: Prop, thorough: bool) -> Vec<(usize, usize, usize)> {
    let mut units: Vec<(usize, usize, usize)> = Vec::new();
    for n in prop.caps(thorough) {
        if n == 0 {
            units.push((0, 0, 0));
        } else {
            for len in 0..=n {
                for start in 0..n {
                    units.push((n, start, len));
                }
            }
        }
    }
    for n in prop.large_caps(thorough) {
        units.extend(crate::gen_enum::large_units(n));
    }
    units
}

/// Exhaustive enumeration of the property's small-scope space over `threads` workers.
pub fn run_enum(prop: Prop, thorough: bool, threads: usize) -> (Stats, Option<Found>, Vec<u64>) {
    let units = enum_units(prop, thorough);
    let unit_digests: Mutex<Vec<(usize, u64)>> = Mutex::new(Vec::new());
    let next = AtomicUsize::new(0);
    let fail_at = AtomicUsize::new(usize::MAX);
    let found: Mutex<Vec<Found>> = Mutex::new(Vec::new());
    let total = Mutex::new(Stats::default());
    std::thread::scope(|s| {
        for t in 0..threads {
            let (units, next, fail_at, found, total, unit_digests) = (&units, &next, &fail_at, &found, &total, &unit_digests);
            // large capacities of the wide element are several hundred KiB by value: give the workers room
            let _ = std::thread::Builder::new().stack_size(64 << 20).spawn_scoped(s, move || {
                set_worker(t);
                let mut st = Stats::default();
                loop {
                    let u = next.fetch_add(1, Ordering::SeqCst);
                    if u >= units.len() || u > fail_at.load(Ordering::SeqCst) {
                        break;
                    }
                    let (n, start, len) = units[u];
                    let items = prop.enum_cases(n, start, len, thorough);
                    let mut ud = 0u64;
                    for (i, item) in items.iter().enumerate() {
                        let res = match std::panic::catch_unwind(std::panic::AssertUnwindSafe(|| exec_item(prop, item))) {
                            Ok(r) => r,
                            Err(p) => {
                                eprintln!("HARNESS-ERROR: the harness itself panicked on case {}: {}", item.case.to_json(), crate::interp::panic_msg(&p));
                                std::process::exit(3);
                            }
                        };
                        match res {
                            Ok(r) => {
                                st.note(prop, item, &r.runs);
                                st.digest = st.digest.wrapping_add(r.digest.wrapping_mul(case_hash(&item.case) | 1));
                                ud = ud.wrapping_mul(0x100000001b3) ^ r.digest;
                            }
                            Err((case, msg)) => {
                                note_failure(&case);
                                fail_at.fetch_min(u, Ordering::SeqCst);
                                found.lock().unwrap().push(Found { order: (u, i), case, msg });
                                break;
                            }
                        }
                    }
                    unit_digests.lock().unwrap().push((u, ud));
                }
                set_current(None);
                total.lock().unwrap().merge(st);
            });
        }
    });
    let mut f = found.into_inner().unwrap();
    f.sort_by_key(|x| x.order);
    let mut ud = unit_digests.into_inner().unwrap();
    ud.sort();
    (total.into_inner().unwrap(), f.into_iter().next(), ud.into_iter().map(|x| x.1).collect())
}

/// proptest histories: `cases` sequences split over `threads` runners with seeds derived from
/// `seed`; returns the (proptest-shrunk) first failure.
pub fn run_prop(prop: Prop, cases: u32, max_ops: usize, seed: u64, threads: usize) -> (Stats, Option<Found>) {
    let found: Mutex<Vec<Found>> = Mutex::new(Vec::new());
    let total = Mutex::new(Stats::default());
    let stop = AtomicBool::new(false);
    std::thread::scope(|s| {
        for t in 0..threads {
            let (found, total, stop) = (&found, &total, &stop);
            // large capacities of the wide element are several hundred KiB by value: give the workers room
            let _ = std::thread::Builder::new().stack_size(64 << 20).spawn_scoped(s, move || {
                set_worker(t);
                let mut seed_bytes = [0u8; 32];
                seed_bytes[..8].copy_from_slice(&seed.to_le_bytes());
                seed_bytes[8..16].copy_from_slice(&(t as u64).to_le_bytes());
                seed_bytes[16..24].copy_from_slice(&(prop as u64 + 1).to_le_bytes());
                let cfg = Config {
                    cases: cases / threads as u32 + 1,
                    failure_persistence: None,
                    max_shrink_iters: 20000,
                    rng_seed: RngSeed::Fixed(seed),
                    ..Config::default()
                };
                let rng = TestRng::from_seed(RngAlgorithm::ChaCha, &seed_bytes);
                let mut runner = TestRunner::new_with_rng(cfg, rng);
                let strat = crate::gen_prop::case(prop, max_ops);
                let st = std::cell::RefCell::new(Stats::default());
                let failed = std::cell::Cell::new(false);
                let res = runner.run(&strat, |case| {
                    if stop.load(Ordering::Relaxed) && !failed.get() {
                        return Ok(());
                    }
                    let res = match std::panic::catch_unwind(std::panic::AssertUnwindSafe(|| exec_replay(prop, &case))) {
                        Ok(r) => r,
                        Err(p) => {
                            eprintln!("HARNESS-ERROR: the harness itself panicked on case {}: {}", case.to_json(), crate::interp::panic_msg(&p));
                            std::process::exit(3);
                        }
                    };
                    match res {
                        Ok((flags, dig)) => {
                            if !failed.get() {
                                let item = Item { case, kinds: vec![] };
                                let h = case_hash(&item.case);
                                let mut stb = st.borrow_mut();
                                stb.digest = stb.digest.wrapping_add(dig.wrapping_mul(h | 1));
                                drop(stb);
                                st.borrow_mut().note(prop, &item, &[(h, flags)]);
                            }
                            Ok(())
                        }
                        Err(msg) => {
                            if !failed.get() {
                                note_failure(&crate::props::resolve_fault(prop, &case));
                            }
                            failed.set(true);
                            Err(TestCaseError::fail(msg))
                        }
                    }
                });
                set_current(None);
                match res {
                    Ok(()) => {}
                    Err(TestError::Fail(reason, case)) => {
                        stop.store(true, Ordering::Relaxed);
                        let case = crate::props::resolve_fault(prop, &case);
                        found.lock().unwrap().push(Found { order: (t, 0), case, msg: reason.message().to_string() });
                    }
                    Err(TestError::Abort(reason)) => {
                        eprintln!("proptest aborted: {reason}");
                    }
                }
                total.lock().unwrap().merge(st.into_inner());
            });
        }
    });
    let mut f = found.into_inner().unwrap();
    f.sort_by_key(|x| x.order);
    (total.into_inner().unwrap(), f.into_iter().next())
}

/// Greedy shrinking of a failing case: drop operations, simplify filling, route, constructor,
/// salt and layout while the case still fails under the property's oracles.
pub fn shrink(prop: Prop, case: &Case) -> (Case, String) {
    let mut best = case.clone();
    let mut msg = match exec_replay(prop, &best) {
        Err(m) => m,
        Ok(_) => return (best, "(failure did not reproduce on replay)".into()),
    };
    let mut progress = true;
    let mut budget = 3000;
    while progress && budget > 0 {
        progress = false;
        let mut cands: Vec<Case> = Vec::new();
        for j in (0..best.ops.len()).rev() {
            if let Some(f) = best.fault {
                if f.op_index as usize == j {
                    continue;
                }
            }
            let mut c = best.clone();
            c.ops.remove(j);
            if let Some(f) = c.fault.as_mut() {
                if (f.op_index as usize) > j {
                    f.op_index -= 1;
                }
            }
            cands.push(c);
        }
        if best.fill != Fill::Leave {
            cands.push(Case { fill: Fill::Leave, ..best.clone() });
        }
        if best.route != Route::PushPop {
            cands.push(Case { route: Route::PushPop, ..best.clone() });
        }
        if best.ctor != 0 {
            cands.push(Case { ctor: 0, ..best.clone() });
        }
        if best.salt != 0 {
            cands.push(Case { salt: 0, ..best.clone() });
        }
        if best.len > 0 {
            cands.push(Case { len: best.len - 1, ..best.clone() });
        }
        if best.start > 0 {
            cands.push(Case { start: 0, ..best.clone() });
            cands.push(Case { start: best.start - 1, ..best.clone() });
        }
        // shorten scripts
        for j in 0..best.ops.len() {
            let shorter = match &best.ops[j] {
                Op::Drain(r, s, e) if !s.is_empty() => Some(Op::Drain(*r, s[..s.len() - 1].to_vec(), *e)),
                Op::IterScript(k, s) if !s.is_empty() => Some(Op::IterScript(*k, s[..s.len() - 1].to_vec())),
                Op::IntoIter(s) if !s.is_empty() => Some(Op::IntoIter(s[..s.len() - 1].to_vec())),
                _ => None,
            };
            if let Some(o) = shorter {
                let mut c = best.clone();
                c.ops[j] = o;
                cands.push(c);
            }
        }
        for c in cands {
            budget -= 1;
            if let Err(m) = exec_replay(prop, &c) {
                best = c;
                msg = m;
                progress = true;
                break;
            }
            if budget == 0 {
                break;
            }
        }
    }
    (best, msg)
}
