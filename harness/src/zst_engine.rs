//! C19: zero-sized elements and extreme capacities.  Counter model: lengths, Some/None/Err
//! shapes, iterator lengths, and created - destroyed == len + held after every step; no panic
//! anywhere except the documented ones.

/// Half of the address space (2^63 on 64-bit targets) and the square root of its size (2^32 there).
pub const HALF: usize = (usize::MAX >> 1) + 1;
pub const SQRT: usize = 1 << (usize::BITS / 2);

use crate::deq::{Deq, RangeArg};
use crate::model::range_must_panic;
use crate::tracked::Unit;
use circular_buffer::CircularBuffer;
use serde::{Deserialize, Serialize};
use std::collections::HashSet;
use std::ops::Bound;
use std::panic::{catch_unwind, AssertUnwindSafe};
use std::sync::atomic::{AtomicUsize, Ordering as AO};
use std::sync::Mutex;

pub const CAPS: [usize; 13] = [
    usize::MAX,
    usize::MAX - 1,
    HALF + 1,
    HALF,
    HALF - 1,
    SQRT + 1,
    SQRT,
    SQRT - 1,
    65537,
    3,
    2,
    1,
    0,
];

fn make(ci: usize, boxed: bool) -> Box<dyn Deq<Unit>> {
    fn mk<const N: usize>(boxed: bool) -> Box<dyn Deq<Unit>> {
        if boxed {
            CircularBuffer::<N, Unit>::boxed()
        } else {
            Box::new(CircularBuffer::<N, Unit>::new())
        }
    }
    match ci {
        0 => mk::<{ usize::MAX }>(boxed),
        1 => mk::<{ usize::MAX - 1 }>(boxed),
        2 => mk::<{ HALF + 1 }>(boxed),
        3 => mk::<{ HALF }>(boxed),
        4 => mk::<{ HALF - 1 }>(boxed),
        5 => mk::<{ SQRT + 1 }>(boxed),
        6 => mk::<{ SQRT }>(boxed),
        7 => mk::<{ SQRT - 1 }>(boxed),
        8 => mk::<65537>(boxed),
        9 => mk::<3>(boxed),
        10 => mk::<2>(boxed),
        11 => mk::<1>(boxed),
        _ => mk::<0>(boxed),
    }
}

/// Index argument classes for extreme capacities.
#[derive(Debug, Clone, Copy, PartialEq, Eq, Hash, Serialize, Deserialize)]
pub enum ZI {
    At(u32),
    /// len - k (saturating)
    FromEnd(u32),
    /// len + k
    Past(u32),
    /// N - k (saturating)
    CapMinus(u32),
    Max,
}
impl ZI {
    fn resolve(self, len: usize, n: usize) -> usize {
        match self {
            ZI::At(k) => k as usize,
            ZI::FromEnd(k) => len.saturating_sub(k as usize),
            ZI::Past(k) => len + k as usize,
            ZI::CapMinus(k) => n.saturating_sub(k as usize),
            ZI::Max => usize::MAX,
        }
    }
}
pub const ZIS: [ZI; 9] = [ZI::At(0), ZI::At(1), ZI::FromEnd(1), ZI::Past(0), ZI::Past(1), ZI::CapMinus(1), ZI::CapMinus(0), ZI::Max, ZI::At(2)];

#[derive(Debug, Clone, Copy, PartialEq, Eq, Hash, Serialize, Deserialize)]
pub enum ZB {
    Unb,
    Inc(ZI),
    Exc(ZI),
}

#[derive(Debug, Clone, PartialEq, Eq, Hash, Serialize, Deserialize)]
pub enum ZOp {
    PushBack,
    PushFront,
    TryPushBack,
    TryPushFront,
    PopBack,
    PopFront,
    Remove(ZI),
    Swap(ZI, ZI),
    SwapRemoveBack(ZI),
    SwapRemoveFront(ZI),
    TruncateBack(ZI),
    TruncateFront(ZI),
    Clear,
    Extend(u8),
    /// fill / fill_with / fill_spare / fill_spare_with (their cost grows with the free space: small capacities only)
    Fill(u8),
    ExtendFromSlice(u8),
    MakeContiguous,
    /// drain(range) with `steps` alternating next / next_back calls, then dropped
    Drain(ZB, ZB, u8),
    /// the same, but the drain is leaked with mem::forget after the steps
    DrainForget(ZB, ZB, u8),
    Range(ZB, ZB, bool),
    Access(ZI),
    Views,
    CloneAndCompare,
    CloneFrom(u8),
    IntoIter(u8),
}

#[derive(Debug, Clone, PartialEq, Eq, Hash, Serialize, Deserialize)]
pub struct ZCase {
    pub cap_index: u8,
    pub boxed: bool,
    /// setup: push_front x a, push_back x b, pop_front x c, pop_back x d
    pub setup: [u8; 4],
    pub ops: Vec<ZOp>,
}

impl ZCase {
    pub fn render(&self) -> String {
        let n = CAPS[self.cap_index as usize % CAPS.len()];
        format!(
            "N={n} (ZST) setup(push_front x{}, push_back x{}, pop_front x{}, pop_back x{}) ops={:?}",
            self.setup[0], self.setup[1], self.setup[2], self.setup[3], self.ops
        )
    }
}

fn guard<T>(what: &str, f: impl FnOnce() -> T) -> Result<T, String> {
    catch_unwind(AssertUnwindSafe(f)).map_err(|p| format!("{what} panicked: {}", crate::interp::panic_msg(&p)))
}

fn zb(b: ZB, len: usize, n: usize) -> Bound<usize> {
    match b {
        ZB::Unb => Bound::Unbounded,
        ZB::Inc(i) => Bound::Included(i.resolve(len, n)),
        ZB::Exc(i) => Bound::Excluded(i.resolve(len, n)),
    }
}

pub const ZF_BIG: u64 = 1; // N >= 2^32
pub const ZF_NEAR_EDGE: u64 = 2; // the front position is within 12 of 0 or of N (by construction)
pub const ZF_WRAPPED: u64 = 4; // as_slices reported two non-empty slices at some point
pub const ZF_DOC_PANIC: u64 = 8;

thread_local! {
    /// as_slices() split lengths observed after every step of the last case (capacity-independence check)
    pub static SPLITS: std::cell::RefCell<Vec<(usize, usize)>> = const { std::cell::RefCell::new(Vec::new()) };
}

pub fn run_zcase(c: &ZCase) -> Result<u64, String> {
    SPLITS.with(|s| s.borrow_mut().clear());
    let ci = c.cap_index as usize % CAPS.len();
    let n = CAPS[ci];
    Unit::reset();
    let mut flags = 0u64;
    if n >= SQRT {
        flags |= ZF_BIG | ZF_NEAR_EDGE;
    }
    let mut b = make(ci, c.boxed);
    let mut len: usize = 0;
    let mut held: Vec<Unit> = Vec::new();
    let mut leaked: usize = 0;
    // ---- setup through the public API
    let push = |len: &mut usize, full_ret: Option<Unit>, held: &mut Vec<Unit>| -> Result<(), String> {
        match full_ret {
            Some(u) => {
                if n != 0 && *len != n {
                    return Err(format!("push returned an element with len {} < N {n}", *len));
                }
                held.push(u);
            }
            None => {
                if n == 0 || *len == n {
                    return Err("push on a full buffer returned None".into());
                }
                *len += 1;
            }
        }
        Ok(())
    };
    for _ in 0..c.setup[0].min(12) {
        let r = guard("push_front", || b.push_front(Unit::new()))?;
        push(&mut len, r, &mut held)?;
    }
    for _ in 0..c.setup[1].min(12) {
        let r = guard("push_back", || b.push_back(Unit::new()))?;
        push(&mut len, r, &mut held)?;
    }
    for _ in 0..c.setup[2].min(12) {
        if let Some(u) = guard("pop_front", || b.pop_front())? {
            if len == 0 {
                return Err("pop_front returned an element from an empty buffer".into());
            }
            len -= 1;
            held.push(u);
        } else if len != 0 {
            return Err("pop_front returned None on a non-empty buffer".into());
        }
    }
    for _ in 0..c.setup[3].min(12) {
        if let Some(u) = guard("pop_back", || b.pop_back())? {
            if len == 0 {
                return Err("pop_back returned an element from an empty buffer".into());
            }
            len -= 1;
            held.push(u);
        } else if len != 0 {
            return Err("pop_back returned None on a non-empty buffer".into());
        }
    }
    let check = |b: &dyn Deq<Unit>, len: usize, held: usize, leaked: usize, flags: &mut u64| -> Result<(), String> {
        if b.len() != len {
            return Err(format!("len() = {}, expected {len}", b.len()));
        }
        if b.is_empty() != (len == 0) || b.is_full() != (len == n) || b.capacity() != n {
            return Err(format!("is_empty/is_full/capacity inconsistent: {} {} {} with len {len}, N {n}", b.is_empty(), b.is_full(), b.capacity()));
        }
        let (s1, s2) = b.as_slices();
        if s1.len() + s2.len() != len {
            return Err(format!("as_slices lengths {} + {} != len {len}", s1.len(), s2.len()));
        }
        if !s1.is_empty() && !s2.is_empty() {
            *flags |= ZF_WRAPPED;
        }
        SPLITS.with(|s| s.borrow_mut().push((s1.len(), s2.len())));
        if b.iter().len() != len || b.iter().count() != len {
            return Err(format!("iter() yields {} / len {} for len {len}", b.iter().count(), b.iter().len()));
        }
        if b.front().is_some() != (len > 0) || b.back().is_some() != (len > 0) {
            return Err("front()/back() shape wrong".into());
        }
        if len > 0 && (b.get(len - 1).is_none() || b.nth_back(len - 1).is_none()) {
            return Err("get(len-1)/nth_back(len-1) is None".into());
        }
        if b.get(len).is_some() || b.get(usize::MAX).is_some() || b.nth_back(len).is_some() || b.nth_back(usize::MAX).is_some() {
            return Err("get/nth_back beyond the length returned Some".into());
        }
        let alive = Unit::created() - Unit::dropped();
        if alive != (len + held + leaked) as u64 {
            return Err(format!("{} zero-sized elements alive, expected {} in the buffer + {} with the caller (+ {} leaked by forgotten drains)", alive, len, held, leaked));
        }
        Ok(())
    };
    guard("observation", || check(&*b, len, held.len(), leaked, &mut flags))??;
    for (i, op) in c.ops.iter().enumerate() {
        let ctx = |m: String| format!("op #{i} {op:?}: {m}");
        let r: Result<(), String> = (|| {
            match op {
                ZOp::PushBack | ZOp::PushFront => {
                    let back = matches!(op, ZOp::PushBack);
                    let r = guard("push", || if back { b.push_back(Unit::new()) } else { b.push_front(Unit::new()) })?;
                    push(&mut len, r, &mut held)?;
                }
                ZOp::TryPushBack | ZOp::TryPushFront => {
                    let back = matches!(op, ZOp::TryPushBack);
                    let r = guard("try_push", || if back { b.try_push_back(Unit::new()) } else { b.try_push_front(Unit::new()) })?;
                    match r {
                        Ok(()) => {
                            if len == n {
                                return Err("try_push returned Ok on a full buffer".into());
                            }
                            len += 1;
                        }
                        Err(u) => {
                            if len != n {
                                return Err("try_push returned Err although there was room".into());
                            }
                            held.push(u);
                        }
                    }
                }
                ZOp::PopBack | ZOp::PopFront => {
                    let back = matches!(op, ZOp::PopBack);
                    let r = guard("pop", || if back { b.pop_back() } else { b.pop_front() })?;
                    if r.is_some() != (len > 0) {
                        return Err(format!("pop returned {:?} with len {len}", r.is_some()));
                    }
                    if let Some(u) = r {
                        len -= 1;
                        held.push(u);
                    }
                }
                ZOp::Remove(z) | ZOp::SwapRemoveBack(z) | ZOp::SwapRemoveFront(z) => {
                    let p = z.resolve(len, n);
                    let r = guard("remove", || match op {
                        ZOp::Remove(_) => b.remove(p),
                        ZOp::SwapRemoveBack(_) => b.swap_remove_back(p),
                        _ => b.swap_remove_front(p),
                    })?;
                    if r.is_some() != (p < len) {
                        return Err(format!("returned Some={} for index {p} with len {len}", r.is_some()));
                    }
                    if let Some(u) = r {
                        len -= 1;
                        held.push(u);
                    }
                }
                ZOp::Swap(x, y) => {
                    let (p, q) = (x.resolve(len, n), y.resolve(len, n));
                    let must = p >= len || q >= len;
                    let r = catch_unwind(AssertUnwindSafe(|| b.swap(p, q)));
                    if r.is_err() != must {
                        return Err(format!("swap({p},{q}) with len {len}: panicked={}, documented={must}", r.is_err()));
                    }
                    if must {
                        flags |= ZF_DOC_PANIC;
                    }
                }
                ZOp::TruncateBack(z) | ZOp::TruncateFront(z) => {
                    let k = z.resolve(len, n);
                    let back = matches!(op, ZOp::TruncateBack(_));
                    guard("truncate", || if back { b.truncate_back(k) } else { b.truncate_front(k) })?;
                    len = len.min(k);
                }
                ZOp::Clear => {
                    guard("clear", || b.clear())?;
                    len = 0;
                }
                ZOp::Extend(m) => {
                    let m = *m as usize;
                    guard("extend", || b.extend_dyn(&mut (0..m).map(|_| Unit::new())))?;
                    len = if n == 0 { 0 } else { (len + m).min(n) };
                }
                ZOp::Fill(kind) => {
                    if n <= 64 {
                        let before_created = Unit::created();
                        let before_dropped = Unit::dropped();
                        let free = n - len;
                        match kind % 4 {
                            0 => guard("fill", || b.fill(Unit::new()))?,
                            1 => guard("fill_with", || b.fill_with(&mut || Unit::new()))?,
                            2 => guard("fill_spare", || b.fill_spare(Unit::new()))?,
                            _ => guard("fill_spare_with", || b.fill_spare_with(&mut || Unit::new()))?,
                        }
                        // elements that must have been made: one per slot filled (fill / fill_with replace everything; when
                        // there is nothing to fill the value handed to fill_spare is simply destroyed); destroyed: the replaced ones
                        let (slots, replaced) = if kind % 4 < 2 { (n, len) } else { (free, 0) };
                        let made = Unit::created() - before_created;
                        let gone = Unit::dropped() - before_dropped;
                        let by_value = kind % 2 == 0;
                        let want_made = if by_value { slots.max(1) } else { slots } as u64;
                        let want_gone = replaced as u64 + if by_value && slots == 0 { 1 } else { 0 };
                        // extra clone-and-destroy pairs would be legal, so only the balance and the minimum are demanded
                        if made < want_made || gone < want_gone || made - want_made != gone - want_gone {
                            return Err(format!(
                                "{op:?} on {len} of {n} zero-sized elements: {made} elements were created and {gone} destroyed during the call, expected {want_made} and {want_gone} (plus matching pairs)"
                            ));
                        }
                        len = n;
                    }
                }
                ZOp::ExtendFromSlice(m) => {
                    let src: Vec<Unit> = (0..*m).map(|_| Unit::new()).collect();
                    guard("extend_from_slice", || b.extend_from_slice(&src))?;
                    drop(src);
                    len = if n == 0 { 0 } else { (len + *m as usize).min(n) };
                }
                ZOp::MakeContiguous => {
                    let l = guard("make_contiguous", || b.make_contiguous().len())?;
                    if l != len {
                        return Err(format!("make_contiguous returned {l} elements, len {len}"));
                    }
                    if !b.as_slices().1.is_empty() || !b.as_mut_slices().1.is_empty() {
                        return Err("as_slices / as_mut_slices report two slices after make_contiguous".into());
                    }
                }
                ZOp::Drain(s, e, steps) | ZOp::DrainForget(s, e, steps) => {
                    let forget = matches!(op, ZOp::DrainForget(..));
                    let ra = RangeArg { start: zb(*s, len, n), end: zb(*e, len, n), native: *steps % 2 == 0 };
                    let must = range_must_panic(ra.start, ra.end, len);
                    let steps = *steps;
                    let mut got: Vec<Unit> = Vec::new();
                    let r = {
                        let got = &mut got;
                        catch_unwind(AssertUnwindSafe(|| -> Result<usize, String> {
                            let mut d = b.drain(ra);
                            let total = d.len();
                            let mut rem = total;
                            for k in 0..steps {
                                let x = if k % 2 == 0 { d.next() } else { d.next_back() };
                                if x.is_some() != (rem > 0) {
                                    return Err(format!("drain step {k}: Some={} with {rem} remaining", x.is_some()));
                                }
                                if let Some(u) = x {
                                    got.push(u);
                                    rem -= 1;
                                }
                                if d.len() != rem || d.size_hint() != (rem, Some(rem)) {
                                    return Err(format!("drain len() = {} with {rem} remaining", d.len()));
                                }
                            }
                            if forget {
                                d.forget();
                            } else {
                                drop(d);
                            }
                            Ok(total)
                        }))
                    };
                    held.extend(got);
                    match r {
                        Err(p) => {
                            if !must {
                                return Err(format!("drain panicked: {}", crate::interp::panic_msg(&p)));
                            }
                            flags |= ZF_DOC_PANIC;
                        }
                        Ok(r) => {
                            if must {
                                return Err(format!("drain({:?}, {:?}) with len {len} did not panic", ra.start, ra.end));
                            }
                            let total = r?;
                            let (a, e2) = crate::model::range_to_pair(ra.start, ra.end, len);
                            if total != (e2 - a) as usize {
                                return Err(format!("drain selected {total} elements, expected {}", e2 - a));
                            }
                            if forget {
                                // leaking may lose arbitrary elements, but the buffer must not keep counting
                                // elements that were handed out: everything it holds plus everything the
                                // caller holds must still be alive
                                let now = b.len();
                                if now > len {
                                    return Err(format!("after leaking the drain the buffer has {now} elements, more than before ({len})"));
                                }
                                let alive = Unit::created() - Unit::dropped();
                                if (now + held.len()) as u64 > alive {
                                    return Err(format!(
                                        "after leaking the drain the buffer claims {now} elements and the caller holds {}, but only {alive} are alive: an element handed out by the drain is still counted as buffer contents",
                                        held.len()
                                    ));
                                }
                                leaked = (alive - (now + held.len()) as u64) as usize;
                                len = now;
                            } else {
                                len -= total;
                            }
                        }
                    }
                }
                ZOp::Range(s, e, mutable) => {
                    let ra = RangeArg { start: zb(*s, len, n), end: zb(*e, len, n), native: true };
                    let must = range_must_panic(ra.start, ra.end, len);
                    let mutable = *mutable;
                    let r = catch_unwind(AssertUnwindSafe(|| {
                        if mutable {
                            let it = b.range_mut(ra);
                            (it.len(), it.count())
                        } else {
                            let it = b.range(ra);
                            (it.len(), it.rev().count())
                        }
                    }));
                    match r {
                        Err(p) => {
                            if !must {
                                return Err(format!("range panicked: {}", crate::interp::panic_msg(&p)));
                            }
                            flags |= ZF_DOC_PANIC;
                        }
                        Ok((l, cnt)) => {
                            if must {
                                return Err(format!("range({:?}, {:?}) with len {len} did not panic", ra.start, ra.end));
                            }
                            let (a, e2) = crate::model::range_to_pair(ra.start, ra.end, len);
                            if l != (e2 - a) as usize || cnt != l {
                                return Err(format!("range yields len {l} / count {cnt}, expected {}", e2 - a));
                            }
                        }
                    }
                }
                ZOp::Access(z) => {
                    let p = z.resolve(len, n);
                    let inb = p < len;
                    let r = guard("accessors", || {
                        (
                            b.get(p).is_some(),
                            b.get_mut(p).is_some(),
                            b.nth_front(p).is_some(),
                            b.nth_front_mut(p).is_some(),
                            b.nth_back(p).is_some(),
                            b.nth_back_mut(p).is_some(),
                        )
                    })?;
                    if r != (inb, inb, inb, inb, inb, inb) {
                        return Err(format!("accessors at {p} with len {len} returned {:?}", r));
                    }
                    let r = catch_unwind(AssertUnwindSafe(|| {
                        let _ = b.index(p);
                        let _ = b.index_mut(p);
                    }));
                    if r.is_err() == inb {
                        return Err(format!("indexing at {p} with len {len}: panicked={}", r.is_err()));
                    }
                    if !inb {
                        flags |= ZF_DOC_PANIC;
                    }
                }
                ZOp::Views => {
                    let r = guard("views", || {
                        let v = b.to_vec();
                        let d = b.debug_string(false);
                        let (m1, m2) = b.as_mut_slices();
                        let ml = m1.len() + m2.len();
                        let im = b.iter_mut().count();
                        (v.len(), d, ml, im, b.hash_u64())
                    })?;
                    let want = format!("{:?}", (0..len).map(|_| Unit::new()).collect::<Vec<_>>());
                    if r.0 != len || r.1 != want || r.2 != len || r.3 != len {
                        return Err(format!("views disagree with len {len}: to_vec {} debug {} mut_slices {} iter_mut {}", r.0, r.1, r.2, r.3));
                    }
                }
                ZOp::CloneAndCompare => {
                    let r = guard("clone/compare", || {
                        let c2 = b.clone_box();
                        let l = c2.len();
                        let eq = b.eq_dyn(&*c2);
                        let ord = b.cmp_dyn(&*c2);
                        let h = b.hash_u64() == c2.hash_u64();
                        let sl: Vec<Unit> = (0..l).map(|_| Unit::new()).collect();
                        let es = b.eq_slice(&sl);
                        (l, eq, ord, h, es)
                    })?;
                    if r != (len, true, std::cmp::Ordering::Equal, true, true) {
                        return Err(format!("clone/compare gave {:?} for len {len}", r));
                    }
                }
                ZOp::CloneFrom(m) => {
                    let m = (*m as usize).min(if n == 0 { 0 } else { n });
                    let mut src = make(ci, false);
                    for _ in 0..m {
                        src.push_back(Unit::new());
                    }
                    guard("clone_from", || b.clone_from_dyn(&*src))?;
                    len = src.len();
                }
                ZOp::IntoIter(steps) => {
                    let steps = *steps;
                    let old = std::mem::replace(&mut b, make(ci, c.boxed));
                    let mut got = Vec::new();
                    let r = {
                        let got = &mut got;
                        guard("into_iter", move || -> Result<(), String> {
                            let mut it = old.into_iter_box();
                            let mut rem = len;
                            for k in 0..steps {
                                if it.len() != rem {
                                    return Err(format!("into_iter len {} with {rem} remaining", it.len()));
                                }
                                let x = if k % 2 == 0 { it.next() } else { it.next_back() };
                                if x.is_some() != (rem > 0) {
                                    return Err("into_iter step shape wrong".into());
                                }
                                if let Some(u) = x {
                                    got.push(u);
                                    rem -= 1;
                                }
                            }
                            Ok(())
                        })
                    };
                    held.extend(got);
                    r??;
                    len = 0;
                }
            }
            Ok(())
        })();
        r.map_err(&ctx)?;
        guard("observation", || check(&*b, len, held.len(), leaked, &mut flags)).map_err(&ctx)?.map_err(&ctx)?;
    }
    drop(b);
    drop(held);
    if Unit::created() != Unit::dropped() + leaked as u64 {
        return Err(format!("{} zero-sized elements created, {} destroyed, {} leaked by forgotten drains", Unit::created(), Unit::dropped(), leaked));
    }
    Ok(flags)
}

/// Runs a case at a huge capacity and, in addition, the same case at the reference capacity 65537
/// (no arithmetic near the machine-word limit): as long as the buffer is nowhere near full, where the
/// contents wrap around the array end is a function of the history and of the distance of the front
/// from the array end only, so the as_slices() split lengths must be the same at both capacities.
pub fn run_zcase_with_reference(c: &ZCase) -> Result<u64, String> {
    let flags = run_zcase(c)?;
    let ci = c.cap_index as usize % CAPS.len();
    if ci >= 8 {
        return Ok(flags);
    }
    // index classes that name the capacity itself resolve differently on purpose; they only occur in
    // out-of-range positions, so the observable behaviour is the same
    let mine: Vec<(usize, usize)> = SPLITS.with(|s| s.borrow().clone());
    let mut r = c.clone();
    r.cap_index = 8;
    run_zcase(&r).map_err(|e| format!("(reference capacity 65537) {e}"))?;
    let reference: Vec<(usize, usize)> = SPLITS.with(|s| s.borrow().clone());
    if mine != reference {
        let k = mine.iter().zip(reference.iter()).position(|(a, b)| a != b).unwrap_or(mine.len().min(reference.len()));
        return Err(format!(
            "as_slices() splits the contents differently than at capacity 65537 after the same history (observation #{k}: {:?} here, {:?} at the reference capacity): the front position arithmetic is capacity dependent",
            mine.get(k), reference.get(k)
        ));
    }
    Ok(flags)
}

pub fn all_ops() -> Vec<ZOp> {
    let mut ops = vec![
        ZOp::PushBack,
        ZOp::PushFront,
        ZOp::TryPushBack,
        ZOp::TryPushFront,
        ZOp::PopBack,
        ZOp::PopFront,
        ZOp::Clear,
        ZOp::MakeContiguous,
        ZOp::Views,
        ZOp::CloneAndCompare,
        ZOp::Fill(0),
        ZOp::Fill(1),
        ZOp::Fill(2),
        ZOp::Fill(3),
    ];
    for z in ZIS {
        ops.push(ZOp::Remove(z));
        ops.push(ZOp::SwapRemoveBack(z));
        ops.push(ZOp::SwapRemoveFront(z));
        ops.push(ZOp::TruncateBack(z));
        ops.push(ZOp::TruncateFront(z));
        ops.push(ZOp::Access(z));
        for y in [ZI::At(0), ZI::FromEnd(1), ZI::Past(0), ZI::Max, ZI::CapMinus(1)] {
            ops.push(ZOp::Swap(z, y));
        }
    }
    for m in [0u8, 1, 2, 5] {
        ops.push(ZOp::Extend(m));
        ops.push(ZOp::ExtendFromSlice(m));
        ops.push(ZOp::CloneFrom(m));
        ops.push(ZOp::IntoIter(m));
    }
    let mut bs = vec![ZB::Unb];
    for z in [ZI::At(0), ZI::At(1), ZI::FromEnd(1), ZI::Past(0), ZI::Past(1), ZI::CapMinus(0), ZI::Max] {
        bs.push(ZB::Inc(z));
        bs.push(ZB::Exc(z));
    }
    for s in &bs {
        for e in &bs {
            for steps in [0u8, 1, 3] {
                ops.push(ZOp::Drain(*s, *e, steps));
            }
            for steps in [0u8, 1, 2] {
                ops.push(ZOp::DrainForget(*s, *e, steps));
            }
            ops.push(ZOp::Range(*s, *e, false));
            ops.push(ZOp::Range(*s, *e, true));
        }
    }
    ops
}

pub fn setups() -> Vec<[u8; 4]> {
    // front position near N (push_front from empty), near 0 (push_back), then pops that move
    // the front across the wrap in both directions
    let mut v = Vec::new();
    for pf in [0u8, 1, 2, 5] {
        for pb in [0u8, 1, 3] {
            for c in [0u8, 1, 2, 6] {
                for d in [0u8, 1] {
                    if (c + d) as u16 <= (pf + pb) as u16 + 1 {
                        v.push([pf, pb, c, d]);
                    }
                }
            }
        }
    }
    v
}

#[derive(Default)]
pub struct ZStats {
    pub evaluations: u64,
    pub nontrivial: HashSet<u64>,
    pub wrapped: u64,
    pub doc_panics: u64,
    pub samples: Vec<String>,
    pub by_cap: std::collections::BTreeMap<String, u64>,
}

fn zhash(c: &ZCase) -> u64 {
    use std::hash::{Hash, Hasher};
    let mut h = std::collections::hash_map::DefaultHasher::new();
    c.hash(&mut h);
    h.finish()
}

impl ZStats {
    fn note(&mut self, c: &ZCase, f: u64) {
        self.evaluations += 1;
        *self.by_cap.entry(format!("{}", CAPS[c.cap_index as usize % CAPS.len()])).or_default() += 1;
        if f & ZF_WRAPPED != 0 {
            self.wrapped += 1;
        }
        if f & ZF_DOC_PANIC != 0 {
            self.doc_panics += 1;
        }
        if f & ZF_BIG != 0 && f & ZF_NEAR_EDGE != 0 {
            let h = zhash(c);
            self.nontrivial.insert(h);
            if self.samples.len() < 3 || (h % 20011 == 5 && self.samples.len() < 10) {
                self.samples.push(c.render());
            }
        }
    }
    fn merge(&mut self, o: ZStats) {
        self.evaluations += o.evaluations;
        self.nontrivial.extend(o.nontrivial);
        self.wrapped += o.wrapped;
        self.doc_panics += o.doc_panics;
        self.samples.extend(o.samples);
        for (k, v) in o.by_cap {
            *self.by_cap.entry(k).or_default() += v;
        }
    }
}

pub fn zcase_strategy(max_ops: usize) -> proptest::strategy::BoxedStrategy<ZCase> {
    use proptest::prelude::*;
    let ops = all_ops();
    (0u8..13, any::<bool>(), [0u8..7, 0u8..7, 0u8..8, 0u8..4], proptest::collection::vec(proptest::sample::select(ops), 0..=max_ops))
        .prop_map(|(cap_index, boxed, setup, ops)| ZCase { cap_index, boxed, setup, ops })
        .boxed()
}

pub fn run_zst(seed: u64, threads: usize, prop_cases: u32, max_ops: usize) -> (ZStats, ZStats, Option<(ZCase, String, &'static str)>) {
    let ops = all_ops();
    let sets = setups();
    let mut units = Vec::new();
    for ci in 0..CAPS.len() {
        for s in &sets {
            units.push((ci, *s));
        }
    }
    let next = AtomicUsize::new(0);
    let fail_at = AtomicUsize::new(usize::MAX);
    let found: Mutex<Vec<(usize, ZCase, String)>> = Mutex::new(Vec::new());
    let total = Mutex::new(ZStats::default());
    std::thread::scope(|s| {
        for _ in 0..threads {
            s.spawn(|| {
                let mut st = ZStats::default();
                loop {
                    let u = next.fetch_add(1, AO::SeqCst);
                    if u >= units.len() || u > fail_at.load(AO::SeqCst) {
                        break;
                    }
                    let (ci, setup) = units[u];
                    for (k, op) in ops.iter().enumerate() {
                        // single step, followed by a short fixed tail that exercises the state
                        let c = ZCase { cap_index: ci as u8, boxed: k % 2 == 0, setup, ops: vec![op.clone(), ZOp::PushFront, ZOp::Views, ZOp::PopBack, ZOp::PushBack] };
                        crate::watch::tick();
                        match run_zcase_with_reference(&c) {
                            Ok(f) => st.note(&c, f),
                            Err(m) => {
                                fail_at.fetch_min(u, AO::SeqCst);
                                found.lock().unwrap().push((u, c, m));
                                break;
                            }
                        }
                    }
                }
                total.lock().unwrap().merge(st);
            });
        }
    });
    let mut f = found.into_inner().unwrap();
    f.sort_by_key(|x| x.0);
    let es = total.into_inner().unwrap();
    if let Some((_, c, m)) = f.into_iter().next() {
        return (es, ZStats::default(), Some((c, m, "enumerative")));
    }
    use proptest::test_runner::{Config, RngAlgorithm, RngSeed, TestCaseError, TestError, TestRng, TestRunner};
    let found: Mutex<Vec<(usize, ZCase, String)>> = Mutex::new(Vec::new());
    let total = Mutex::new(ZStats::default());
    std::thread::scope(|s| {
        for t in 0..threads {
            let (found, total) = (&found, &total);
            s.spawn(move || {
                let mut sb = [0u8; 32];
                sb[..8].copy_from_slice(&seed.to_le_bytes());
                sb[8..16].copy_from_slice(&(t as u64 + 9000).to_le_bytes());
                let cfg = Config { cases: prop_cases / threads as u32 + 1, failure_persistence: None, max_shrink_iters: 10000, rng_seed: RngSeed::Fixed(seed), ..Config::default() };
                let mut runner = TestRunner::new_with_rng(cfg, TestRng::from_seed(RngAlgorithm::ChaCha, &sb));
                let st = std::cell::RefCell::new(ZStats::default());
                let failed = std::cell::Cell::new(false);
                let res = runner.run(&zcase_strategy(max_ops), |c| match { crate::watch::tick(); run_zcase_with_reference(&c) } {
                    Ok(f) => {
                        if !failed.get() {
                            st.borrow_mut().note(&c, f);
                        }
                        Ok(())
                    }
                    Err(m) => {
                        failed.set(true);
                        Err(TestCaseError::fail(m))
                    }
                });
                if let Err(TestError::Fail(r, c)) = res {
                    found.lock().unwrap().push((t, c, r.message().to_string()));
                }
                total.lock().unwrap().merge(st.into_inner());
            });
        }
    });
    let mut f = found.into_inner().unwrap();
    f.sort_by_key(|x| x.0);
    (es, total.into_inner().unwrap(), f.into_iter().next().map(|(_, c, m)| (c, m, "proptest")))
}
