#[cfg(feature = "cb-std")]
use cbverif::case::Case;
#[cfg(feature = "cb-std")]
use cbverif::props::{exec_replay, Prop};
#[cfg(feature = "cb-std")]
use cbverif::runner::{self, Stats, FLAG_NAMES};

#[global_allocator]
static GLOBAL: cbverif::alloc_engine::Counting = cbverif::alloc_engine::Counting;
use serde_json::json;
use std::time::Instant;

fn arg(args: &[String], name: &str) -> Option<String> {
    args.iter().position(|a| a == name).and_then(|i| args.get(i + 1).cloned())
}

#[cfg(feature = "cb-std")]
fn stats_json(st: &Stats) -> serde_json::Value {
    let mut flags = serde_json::Map::new();
    for (i, n) in FLAG_NAMES.iter().enumerate() {
        flags.insert(n.to_string(), json!(st.flag_counts[i]));
    }
    json!({
        "evaluations": st.evaluations,
        "distinct_nontrivial": st.nontrivial.len(),
        "by_first_op": st.by_op,
        "by_capacity": st.by_cap.iter().map(|(k, v)| (k.to_string(), *v)).collect::<std::collections::BTreeMap<_, _>>(),
        "fact_counts": flags,
        "samples": st.samples,
        "digest": format!("{:016x}", st.digest),
    })
}

fn main() {
    if std::env::var_os("CBVERIF_PANICS").is_none() {
        std::panic::set_hook(Box::new(|_| {}));
    }
    let args: Vec<String> = std::env::args().collect();
    let cmd = args.get(1).map(|s| s.as_str()).unwrap_or("");
    match cmd {
        #[cfg(feature = "cb-std")]
        "run" => {
            let prop = Prop::parse(&args[2]).expect("unknown property");
            let thorough = arg(&args, "--tier").as_deref() == Some("thorough");
            let seed: u64 = arg(&args, "--seed").and_then(|s| s.parse().ok()).unwrap_or(20260926);
            let threads: usize = arg(&args, "--threads").and_then(|s| s.parse().ok()).unwrap_or(16);
            let out = arg(&args, "--out").expect("--out");
            let crash = arg(&args, "--crash-file").unwrap_or_else(|| format!("{out}.crash"));
            let mode = arg(&args, "--mode").unwrap_or_else(|| "both".into());
            let prop_cases: u32 = arg(&args, "--prop-cases").and_then(|s| s.parse().ok()).unwrap_or(if thorough { 2_000_000 } else { 100_000 });
            let max_ops: usize = arg(&args, "--max-ops").and_then(|s| s.parse().ok()).unwrap_or(if thorough { 120 } else { 40 });
            runner::install_guards(&crash, 20);
            let t0 = Instant::now();
            let mut report = serde_json::Map::new();
            let mut failure: Option<(String, Case, String)> = None;
            if mode == "both" || mode == "enum" {
                let (st, found, unit_digests) = runner::run_enum(prop, thorough, threads);
                let mut j = stats_json(&st);
                j["layout_units"] = json!(unit_digests.len());
                if args.iter().any(|a| a == "--unit-digests") {
                    j["unit_digests"] = json!(unit_digests.iter().map(|d| format!("{d:016x}")).collect::<Vec<_>>());
                }
                j["exhaustive"] = json!(found.is_none());
                j["capacities"] = json!(prop.caps(thorough));
                report.insert("enumerative".into(), j);
                if let Some(f) = found {
                    failure = Some(("enumerative".into(), f.case, f.msg));
                }
            }
            if failure.is_none() && (mode == "both" || mode == "prop") {
                let (st, found) = runner::run_prop(prop, prop_cases, max_ops, seed, threads);
                let mut j = stats_json(&st);
                j["max_ops"] = json!(max_ops);
                report.insert("proptest".into(), j);
                if let Some(f) = found {
                    failure = Some(("proptest".into(), f.case, f.msg));
                }
            }
            if let Some((gen, case, msg)) = failure {
                let (small, smsg) = runner::shrink(prop, &case);
                report.insert(
                    "failure".into(),
                    json!({"generator": gen, "message": smsg, "original_message": msg, "case": serde_json::to_value(&small).unwrap(), "rendered": small.render()}),
                );
            }
            report.insert("wall_s".into(), json!(t0.elapsed().as_secs_f64()));
            report.insert("seed".into(), json!(seed));
            report.insert("rule".into(), json!(prop.rule()));
            runner::guards_done();
            std::fs::write(&out, serde_json::to_string_pretty(&serde_json::Value::Object(report)).unwrap()).unwrap();
        }
        #[cfg(feature = "cb-std")]
        "decode-fuzz" => {
            // turns a libFuzzer input (crash artefact or corpus file) back into a replayable case
            let data = std::fs::read(&args[3]).expect("read fuzz input");
            match args[2].as_str() {
                "history" => println!("{}", cbverif::fuzz_decode::decode_case(&data).to_json()),
                "bytes_io" => println!("{}", serde_json::to_string(&cbverif::fuzz_decode::decode_io_case(&data)).unwrap()),
                t => panic!("unknown fuzz target {t}"),
            }
        }
        #[cfg(feature = "cb-std")]
        "unit" => {
            // per-case digests of one layout unit (used to localise a C18 difference)
            let prop = Prop::parse(&args[2]).expect("unknown property");
            let idx: usize = args[3].parse().expect("unit index");
            let thorough = arg(&args, "--tier").as_deref() == Some("thorough");
            let units = runner::enum_units(prop, thorough);
            let (n, start, len) = units[idx];
            for item in prop.enum_cases(n, start, len, thorough) {
                match cbverif::props::exec_item(prop, &item) {
                    Ok(r) => println!("{:016x} {}", r.digest, item.case.to_json()),
                    Err((c, m)) => println!("FAIL {} {}", c.to_json(), m),
                }
            }
        }
        #[cfg(feature = "cb-std")]
        "miri" => {
            // sub-space for Miri (thorough tiers of C03/C04/C07): single-threaded, small capacities
            let prop = Prop::parse(&args[2]).expect("unknown property");
            let part: usize = args[3].parse().unwrap();
            let nparts: usize = args[4].parse().unwrap();
            let maxn: usize = args[5].parse().unwrap();
            let stride: usize = args.get(6).and_then(|s| s.parse().ok()).unwrap_or(1);
            let trace = std::env::var_os("CBVERIF_TRACE").is_some();
            let units: Vec<_> = runner::enum_units(prop, false).into_iter().filter(|u| u.0 <= maxn).collect();
            let mut cases = 0u64;
            let mut idx = 0usize;
            for (ui, (n, start, len)) in units.iter().enumerate() {
                println!("UNIT {ui} N={n} start={start} len={len}");
                for item in prop.enum_cases(*n, *start, *len, false).iter() {
                    // every `stride`-th case of the whole space, dealt round-robin to the processes
                    idx += 1;
                    if idx % stride != 0 || (idx / stride) % nparts != part {
                        continue;
                    }
                    if trace {
                        println!("CASE {}", item.case.to_json());
                    }
                    match cbverif::props::exec_item(prop, item) {
                        Ok(r) => cases += r.runs.len() as u64,
                        Err((c, m)) => {
                            println!("MIRI-FAIL {} {}", c.to_json(), m);
                            std::process::exit(1);
                        }
                    }
                }
            }
            println!("MIRI-OK cases={cases}");
        }
        #[cfg(feature = "cb-std")]
        "replay" => {
            let prop = Prop::parse(&args[2]).expect("unknown property");
            let text = std::fs::read_to_string(&args[3]).expect("read replay file");
            // a replay file is either the bare case or an object with a "case" member
            let v: serde_json::Value = serde_json::from_str(&text).expect("json");
            let cv = if v.get("case").is_some() { v["case"].clone() } else { v };
            let case: Case = serde_json::from_value(cv).expect("case");
            println!("case: {}", case.render());
            #[cfg(not(miri))]
            runner::install_guards(&format!("{}.crash", &args[3]), 30);
            match exec_replay(prop, &case) {
                Ok((_, digest)) => {
                    println!("trace digest: {digest:016x}");
                    println!("REPLAY-OK property={} holds on this case", prop.id());
                }
                Err(m) => {
                    println!("REPLAY-FAIL property={} {}", prop.id(), m);
                    std::process::exit(1);
                }
            }
        }
        #[cfg(feature = "cb-std")]
        "io" => {
            cbverif::watch::start(600);
            use cbverif::io_engine::{self as io, Api};
            let thorough = arg(&args, "--tier").as_deref() == Some("thorough");
            let seed: u64 = arg(&args, "--seed").and_then(|s| s.parse().ok()).unwrap_or(20260926);
            let threads: usize = arg(&args, "--threads").and_then(|s| s.parse().ok()).unwrap_or(16);
            let out = arg(&args, "--out").expect("--out");
            let apis: Vec<Api> = arg(&args, "--apis")
                .unwrap_or_else(|| "std".into())
                .split(',')
                .map(|a| match a {
                    "std" => Api::Std,
                    "eio" => Api::Eio,
                    "eio-async" => Api::EioAsync,
                    o => panic!("unknown api {o}"),
                })
                .collect();
            for a in &apis {
                assert!(io::api_available(*a), "api {a:?} not compiled into this build");
            }
            let prop_cases: u32 = arg(&args, "--prop-cases").and_then(|s| s.parse().ok()).unwrap_or(if thorough { 400_000 } else { 40_000 });
            let max_ops = if thorough { 300 } else { 40 };
            let t0 = Instant::now();
            let (es, ps, fail) = io::run_io(&apis, thorough, seed, threads, prop_cases, max_ops);
            let sj = |st: &io::IoStats| {
                json!({
                    "evaluations": st.evaluations,
                    "distinct_nontrivial": st.nontrivial.len(),
                    "by_first_op": st.by_op,
                    "fact_counts": {"partial_or_clamped_transfer": st.flag_counts[0], "wrap_point_involved": st.flag_counts[1], "zero_capacity": st.flag_counts[2], "write_longer_than_free_space": st.flag_counts[3], "non_empty": st.flag_counts[4]},
                    "samples": st.samples,
                })
            };
            let mut report = serde_json::Map::new();
            report.insert("enumerative".into(), sj(&es));
            report.insert("proptest".into(), sj(&ps));
            if let Some((c, m, gen)) = fail {
                let (small, smsg) = io::shrink_io(&c);
                report.insert("failure".into(), json!({"generator": gen, "message": smsg, "original_message": m, "case": serde_json::to_value(&small).unwrap(), "rendered": small.render()}));
            }
            report.insert("wall_s".into(), json!(t0.elapsed().as_secs_f64()));
            report.insert("seed".into(), json!(seed));
            std::fs::write(&out, serde_json::to_string_pretty(&serde_json::Value::Object(report)).unwrap()).unwrap();
        }
        #[cfg(feature = "cb-std")]
        "cmp" => {
            cbverif::watch::start(600);
            use cbverif::cmp_engine as ce;
            let thorough = arg(&args, "--tier").as_deref() == Some("thorough");
            let seed: u64 = arg(&args, "--seed").and_then(|s| s.parse().ok()).unwrap_or(20260926);
            let threads: usize = arg(&args, "--threads").and_then(|s| s.parse().ok()).unwrap_or(16);
            let out = arg(&args, "--out").expect("--out");
            let prop_cases: u32 = arg(&args, "--prop-cases").and_then(|s| s.parse().ok()).unwrap_or(if thorough { 2_000_000 } else { 200_000 });
            let t0 = Instant::now();
            let (es, ps, fail) = ce::run_cmp(thorough, seed, threads, prop_cases);
            let sj = |st: &ce::CmpStats| {
                json!({
                    "evaluations": st.evaluations,
                    "distinct_nontrivial": st.nontrivial.len(),
                    "pairs_with_equal_contents": st.equal_pairs,
                    "by_kind": st.by_kind,
                    "samples": st.samples,
                })
            };
            let mut report = serde_json::Map::new();
            let mut e = sj(&es);
            e["exhaustive"] = json!(fail.is_none());
            report.insert("enumerative".into(), e);
            report.insert("proptest".into(), sj(&ps));
            if let Some((c, m, gen)) = fail {
                report.insert("failure".into(), json!({"generator": gen, "message": m, "case": serde_json::to_value(&c).unwrap(), "rendered": c.render()}));
            }
            report.insert("wall_s".into(), json!(t0.elapsed().as_secs_f64()));
            report.insert("seed".into(), json!(seed));
            std::fs::write(&out, serde_json::to_string_pretty(&serde_json::Value::Object(report)).unwrap()).unwrap();
        }
        #[cfg(feature = "cb-std")]
        "replay-cmp" => {
            let text = std::fs::read_to_string(&args[2]).expect("read replay file");
            let v: serde_json::Value = serde_json::from_str(&text).expect("json");
            let cv = if v.get("case").is_some() { v["case"].clone() } else { v };
            let case: cbverif::cmp_engine::CmpCase = serde_json::from_value(cv).expect("case");
            println!("case: {}", case.render());
            match cbverif::cmp_engine::run_cmp_case(&case) {
                Ok(_) => println!("REPLAY-OK"),
                Err(m) => {
                    println!("REPLAY-FAIL {m}");
                    std::process::exit(1);
                }
            }
        }
        #[cfg(feature = "cb-std")]
        "zst" => {
            cbverif::watch::start(600);
            use cbverif::zst_engine as ze;
            let thorough = arg(&args, "--tier").as_deref() == Some("thorough");
            let seed: u64 = arg(&args, "--seed").and_then(|s| s.parse().ok()).unwrap_or(20260926);
            let threads: usize = arg(&args, "--threads").and_then(|s| s.parse().ok()).unwrap_or(16);
            let out = arg(&args, "--out").expect("--out");
            let prop_cases: u32 = arg(&args, "--prop-cases").and_then(|s| s.parse().ok()).unwrap_or(if thorough { 1_000_000 } else { 60_000 });
            let t0 = Instant::now();
            let (es, ps, fail) = ze::run_zst(seed, threads, prop_cases, if thorough { 120 } else { 60 });
            let sj = |st: &ze::ZStats| {
                json!({
                    "evaluations": st.evaluations,
                    "distinct_nontrivial": st.nontrivial.len(),
                    "cases_with_two_nonempty_slices": st.wrapped,
                    "cases_with_documented_panic": st.doc_panics,
                    "by_capacity": st.by_cap,
                    "samples": st.samples,
                })
            };
            let mut report = serde_json::Map::new();
            let mut e = sj(&es);
            e["exhaustive"] = json!(fail.is_none());
            report.insert("enumerative".into(), e);
            report.insert("proptest".into(), sj(&ps));
            if let Some((c, m, gen)) = fail {
                report.insert("failure".into(), json!({"generator": gen, "message": m, "case": serde_json::to_value(&c).unwrap(), "rendered": c.render()}));
            }
            report.insert("wall_s".into(), json!(t0.elapsed().as_secs_f64()));
            report.insert("seed".into(), json!(seed));
            std::fs::write(&out, serde_json::to_string_pretty(&serde_json::Value::Object(report)).unwrap()).unwrap();
        }
        #[cfg(feature = "cb-std")]
        "replay-zst" => {
            let text = std::fs::read_to_string(&args[2]).expect("read replay file");
            let v: serde_json::Value = serde_json::from_str(&text).expect("json");
            let cv = if v.get("case").is_some() { v["case"].clone() } else { v };
            let case: cbverif::zst_engine::ZCase = serde_json::from_value(cv).expect("case");
            println!("case: {}", case.render());
            match cbverif::zst_engine::run_zcase_with_reference(&case) {
                Ok(_) => println!("REPLAY-OK"),
                Err(m) => {
                    println!("REPLAY-FAIL {m}");
                    std::process::exit(1);
                }
            }
        }
        #[cfg(feature = "cb-std")]
        "replay-io" => {
            let text = std::fs::read_to_string(&args[2]).expect("read replay file");
            let v: serde_json::Value = serde_json::from_str(&text).expect("json");
            let cv = if v.get("case").is_some() { v["case"].clone() } else { v };
            let case: cbverif::io_engine::IoCase = serde_json::from_value(cv).expect("case");
            println!("case: {}", case.render());
            if !cbverif::io_engine::api_available(case.api) {
                println!("REPLAY-SKIP api {:?} not compiled into this build", case.api);
                std::process::exit(5);
            }
            match cbverif::io_engine::run_io_case(&case) {
                Ok(_) => println!("REPLAY-OK"),
                Err(m) => {
                    println!("REPLAY-FAIL {m}");
                    std::process::exit(1);
                }
            }
        }
        #[cfg(any(feature = "eio", feature = "eio-async"))]
        "eio-trace" => {
            // C16 across builds: digests of the embedded-io traces per group; `--dump <group>` prints one line per case
            use cbverif::eio_trace::{self as et, TApi};
            let thorough = arg(&args, "--tier").as_deref() == Some("thorough");
            let seed: u64 = arg(&args, "--seed").and_then(|s| s.parse().ok()).unwrap_or(20260926);
            let prop_cases: u32 = arg(&args, "--prop-cases").and_then(|s| s.parse().ok()).unwrap_or(if thorough { 400_000 } else { 40_000 });
            let dump = arg(&args, "--dump");
            let apis: Vec<TApi> = [TApi::Eio, TApi::EioAsync].into_iter().filter(|a| et::api_available(*a)).collect();
            let t0 = Instant::now();
            let groups = et::groups(&apis, thorough, seed, prop_cases);
            let mut gj = serde_json::Map::new();
            let (mut evals, mut nontrivial) = (0u64, std::collections::HashSet::new());
            let mut failure: Option<serde_json::Value> = None;
            let mut samples: Vec<String> = Vec::new();
            let mut tr = Vec::new();
            for g in &groups {
                let mut h = 0xcbf29ce484222325u64;
                let dumping = dump.as_deref() == Some(g.name.as_str());
                for c in &g.cases {
                    evals += 1;
                    match et::run_tcase(c, &mut tr, false) {
                        Ok((d, nt)) => {
                            h = (h ^ d).wrapping_mul(0x100000001b3);
                            if nt {
                                use std::hash::{Hash, Hasher};
                                let mut hs = std::collections::hash_map::DefaultHasher::new();
                                c.hash(&mut hs);
                                nontrivial.insert(hs.finish());
                                if samples.len() < 6 && evals % 9973 == 1 {
                                    samples.push(format!("{c:?}"));
                                }
                            }
                            if dumping {
                                println!("{d:016x} {}", serde_json::to_string(c).unwrap());
                            }
                        }
                        Err(m) => {
                            if failure.is_none() {
                                failure = Some(json!({"message": m, "case": serde_json::to_value(c).unwrap(), "group": g.name}));
                            }
                            if dumping {
                                println!("FAIL {} {m}", serde_json::to_string(c).unwrap());
                            }
                        }
                    }
                }
                gj.insert(g.name.clone(), json!({"cases": g.cases.len(), "digest": format!("{h:016x}")}));
            }
            if dump.is_none() {
                let out = arg(&args, "--out").expect("--out");
                let mut rep = json!({"evaluations": evals, "distinct_nontrivial": nontrivial.len(), "groups": gj, "samples": samples,
                    "crate_std_feature": cfg!(feature = "cb-std"), "wall_s": t0.elapsed().as_secs_f64(), "seed": seed});
                if let Some(f) = failure {
                    rep["failure"] = f;
                }
                std::fs::write(&out, serde_json::to_string_pretty(&rep).unwrap()).unwrap();
            }
        }
        #[cfg(any(feature = "eio", feature = "eio-async"))]
        "replay-eio-trace" => {
            // prints the full trace of one case (compared across builds by the caller); exit 1 on a model violation
            let text = std::fs::read_to_string(&args[2]).expect("read replay file");
            let v: serde_json::Value = serde_json::from_str(&text).expect("replay file is not JSON");
            let c: cbverif::eio_trace::TCase = serde_json::from_value(v["case"].clone()).expect("case");
            let mut tr = Vec::new();
            match cbverif::eio_trace::run_tcase(&c, &mut tr, true) {
                Ok((d, _)) => {
                    for l in &tr {
                        println!("TRACE {l}");
                    }
                    println!("DIGEST {d:016x}");
                }
                Err(m) => {
                    println!("FAIL {m}");
                    std::process::exit(1);
                }
            }
        }
        #[cfg(feature = "cb-std")]
        "big" => {
            // large boxed buffers in an unoptimised build (C11/C12); a stack overflow kills the process after a STEP line
            let only: Option<usize> = arg(&args, "--only").and_then(|s| s.parse().ok());
            let one: Option<cbverif::big_engine::BigCase> =
                arg(&args, "--case").map(|f| serde_json::from_str(&std::fs::read_to_string(f).expect("read case")).expect("case JSON"));
            let (part, parts): (usize, usize) = arg(&args, "--part")
                .map(|s| {
                    let (a, b) = s.split_once('/').expect("--part i/n");
                    (a.parse().unwrap(), b.parse().unwrap())
                })
                .unwrap_or((0, 1));
            let t0 = Instant::now();
            let prefix = arg(&args, "--ops-prefix");
            let (evals, nontrivial, failure) = cbverif::big_engine::run(&|i, c| {
                if let Some(p) = &prefix {
                    if !format!("{:?}", c.op).starts_with(p.as_str()) {
                        return false;
                    }
                }
                match (&one, only) {
                    (Some(o), _) => o == c,
                    (None, Some(k)) => i == k && i % parts == part,
                    (None, None) => i % parts == part,
                }
            });
            let mut rep = json!({"evaluations": evals, "distinct_nontrivial": nontrivial, "wall_s": t0.elapsed().as_secs_f64(),
                "capacity": cbverif::big_engine::BIG, "optimised": !cfg!(debug_assertions)});
            if let Some((c, m)) = failure {
                rep["failure"] = json!({"case": serde_json::to_value(c).unwrap(), "message": m});
            }
            if let Some(out) = arg(&args, "--out") {
                std::fs::write(&out, serde_json::to_string_pretty(&rep).unwrap()).unwrap();
            }
            println!("DONE {}", serde_json::to_string(&rep).unwrap());
        }
        #[cfg(all(feature = "cb-std", target_pointer_width = "64"))]
        "huge" => {
            // byte buffers with capacities around 2^31..2^32 (boxed; only the pages around the front are touched)
            let thorough = arg(&args, "--tier").as_deref() == Some("thorough");
            let seed: u64 = arg(&args, "--seed").and_then(|s| s.parse().ok()).unwrap_or(20260926);
            let prop_cases: u32 = arg(&args, "--prop-cases").and_then(|s| s.parse().ok()).unwrap_or(if thorough { 200_000 } else { 20_000 });
            let t0 = Instant::now();
            let (evals, nontrivial, samples, failure) = cbverif::huge_engine::run(seed, prop_cases, 8);
            let mut rep = json!({"evaluations": evals, "distinct_nontrivial": nontrivial, "samples": samples, "wall_s": t0.elapsed().as_secs_f64(),
                "capacities": cbverif::huge_engine::HCAPS, "seed": seed});
            if let Some((c, m)) = failure {
                rep["failure"] = json!({"case": serde_json::to_value(&c).unwrap(), "message": m, "rendered": format!("{c:?}")});
            }
            std::fs::write(arg(&args, "--out").expect("--out"), serde_json::to_string_pretty(&rep).unwrap()).unwrap();
        }
        #[cfg(all(feature = "cb-std", target_pointer_width = "64"))]
        "replay-huge" => {
            let text = std::fs::read_to_string(&args[2]).expect("read replay file");
            let v: serde_json::Value = serde_json::from_str(&text).expect("replay file is not JSON");
            let c: cbverif::huge_engine::HCase = serde_json::from_value(v["case"].clone()).expect("case");
            match cbverif::huge_engine::run_hcase(&c) {
                Ok(_) => println!("ok"),
                Err(m) => {
                    println!("FAIL {m}");
                    std::process::exit(1);
                }
            }
        }
        #[cfg(feature = "cb-std")]
        "zfull" => {
            // full zero-sized buffers at extreme capacities (C19)
            let thorough = arg(&args, "--tier").as_deref() == Some("thorough");
            let t0 = Instant::now();
            let (evals, nontrivial, samples, failure) = cbverif::zfull_engine::run(thorough);
            let mut rep = json!({"evaluations": evals, "distinct_nontrivial": nontrivial, "samples": samples, "wall_s": t0.elapsed().as_secs_f64(),
                "capacities": cbverif::zfull_engine::FCAPS.iter().map(|c| c.to_string()).collect::<Vec<_>>()});
            if let Some((c, m)) = failure {
                rep["failure"] = json!({"case": serde_json::to_value(&c).unwrap(), "message": m, "rendered": format!("{c:?}")});
            }
            std::fs::write(arg(&args, "--out").expect("--out"), serde_json::to_string_pretty(&rep).unwrap()).unwrap();
        }
        #[cfg(feature = "cb-std")]
        "replay-zfull" => {
            let text = std::fs::read_to_string(&args[2]).expect("read replay file");
            let v: serde_json::Value = serde_json::from_str(&text).expect("replay file is not JSON");
            let c: cbverif::zfull_engine::FCase = serde_json::from_value(v["case"].clone()).expect("case");
            match std::panic::catch_unwind(|| cbverif::zfull_engine::run_fcase(&c)) {
                Ok(Ok(_)) => println!("ok"),
                Ok(Err(m)) => {
                    println!("FAIL {m}");
                    std::process::exit(1);
                }
                Err(_) => {
                    println!("FAIL unexpected panic");
                    std::process::exit(1);
                }
            }
        }
        #[cfg(feature = "cb-std")]
        "reloc" => {
            // relocation bounds over plain element types of several sizes (C20)
            let thorough = arg(&args, "--tier").as_deref() == Some("thorough");
            let t0 = Instant::now();
            let (evals, nontrivial, samples, failure) = cbverif::reloc_engine::run(thorough, 16);
            let mut rep = json!({"evaluations": evals, "distinct_nontrivial": nontrivial, "samples": samples, "wall_s": t0.elapsed().as_secs_f64(),
                "element_types": ["u8", "i8", "u16", "[u8; 3]", "u32", "u64", "[u64; 3]"], "capacities": cbverif::reloc_engine::RCAPS});
            if let Some((c, m)) = failure {
                rep["failure"] = json!({"case": serde_json::to_value(&c).unwrap(), "message": m, "rendered": format!("{c:?}")});
            }
            std::fs::write(arg(&args, "--out").expect("--out"), serde_json::to_string_pretty(&rep).unwrap()).unwrap();
        }
        #[cfg(feature = "cb-std")]
        "replay-reloc" => {
            let text = std::fs::read_to_string(&args[2]).expect("read replay file");
            let v: serde_json::Value = serde_json::from_str(&text).expect("replay file is not JSON");
            let c: cbverif::reloc_engine::RCase = serde_json::from_value(v["case"].clone()).expect("case");
            match cbverif::reloc_engine::run_rcase(&c) {
                Ok(_) => println!("ok"),
                Err(m) => {
                    println!("FAIL {m}");
                    std::process::exit(1);
                }
            }
        }
        #[cfg(feature = "cb-std")]
        "tiny" => {
            // one- and two-byte elements that are Clone but not Copy, with per-value clone / destructor counts (C12, C03)
            let thorough = arg(&args, "--tier").as_deref() == Some("thorough");
            let t0 = Instant::now();
            let (evals, nontrivial, samples, failure) = cbverif::tiny_engine::run(thorough);
            let mut rep = json!({"evaluations": evals, "distinct_nontrivial": nontrivial, "samples": samples, "wall_s": t0.elapsed().as_secs_f64()});
            if let Some((c, m)) = failure {
                rep["failure"] = json!({"case": serde_json::to_value(&c).unwrap(), "message": m, "rendered": format!("{c:?}")});
            }
            std::fs::write(arg(&args, "--out").expect("--out"), serde_json::to_string_pretty(&rep).unwrap()).unwrap();
        }
        #[cfg(feature = "cb-std")]
        "copyclone" => {
            // Copy element type with an observable Clone: one line per (capacity, layout, operation); compared across builds (C18)
            for l in cbverif::copy_engine::run() {
                println!("{l}");
            }
        }
        #[cfg(feature = "cb-std")]
        "replay-tiny" => {
            let text = std::fs::read_to_string(&args[2]).expect("read replay file");
            let v: serde_json::Value = serde_json::from_str(&text).expect("replay file is not JSON");
            let c: cbverif::tiny_engine::TCase = serde_json::from_value(v["case"].clone()).expect("case");
            match cbverif::tiny_engine::run_tcase(&c) {
                Ok(_) => println!("ok"),
                Err(m) => {
                    println!("FAIL {m}");
                    std::process::exit(1);
                }
            }
        }
        "alloc" => {
            cbverif::watch::start(600);
            use cbverif::alloc_engine as ae;
            let thorough = arg(&args, "--tier").as_deref() == Some("thorough");
            let seed: u64 = arg(&args, "--seed").and_then(|s| s.parse().ok()).unwrap_or(20260926);
            let threads: usize = arg(&args, "--threads").and_then(|s| s.parse().ok()).unwrap_or(16);
            let out = arg(&args, "--out").expect("--out");
            let prop_cases: u32 = arg(&args, "--prop-cases").and_then(|s| s.parse().ok()).unwrap_or(if thorough { 600_000 } else { 40_000 });
            let t0 = Instant::now();
            let (es, ps, fail) = ae::run_alloc(thorough, seed, threads, prop_cases);
            let sj = |st: &ae::AStats| json!({"evaluations": st.evaluations, "distinct_nontrivial": st.nontrivial.len(), "by_first_op": st.by_op, "samples": st.samples});
            let mut report = serde_json::Map::new();
            let mut e = sj(&es);
            e["exhaustive"] = json!(fail.is_none());
            report.insert("enumerative".into(), e);
            report.insert("proptest".into(), sj(&ps));
            if let Some((c, m, gen)) = fail {
                report.insert("failure".into(), json!({"generator": gen, "message": m, "case": serde_json::to_value(&c).unwrap(), "rendered": c.render()}));
            }
            report.insert("wall_s".into(), json!(t0.elapsed().as_secs_f64()));
            report.insert("seed".into(), json!(seed));
            report.insert("crate_features".into(), json!(if cfg!(feature = "cb-std") { "std" } else if cfg!(feature = "cb-alloc") { "alloc" } else { "none" }));
            std::fs::write(&out, serde_json::to_string_pretty(&serde_json::Value::Object(report)).unwrap()).unwrap();
        }
        "replay-alloc" => {
            let text = std::fs::read_to_string(&args[2]).expect("read replay file");
            let v: serde_json::Value = serde_json::from_str(&text).expect("json");
            let cv = if v.get("case").is_some() { v["case"].clone() } else { v };
            let case: cbverif::alloc_engine::ACase = serde_json::from_value(cv).expect("case");
            println!("case: {}", case.render());
            match cbverif::alloc_engine::run_acase(&case) {
                Ok(_) => println!("REPLAY-OK"),
                Err(m) => {
                    println!("REPLAY-FAIL {m}");
                    std::process::exit(1);
                }
            }
        }
        _ => {
            eprintln!("usage: cbverif run <Cxx> --tier quick|thorough --seed N --out FILE | replay <Cxx> FILE");
            std::process::exit(64);
        }
    }
}
