use cbverif::case::*;
use cbverif::interp::{run_case, Opts};
fn main() {
    std::panic::set_hook(Box::new(|_| {}));
    let c = Case::simple(4, 2, 3, vec![Op::PushBack, Op::PushBack, Op::Remove(Idx::At(1)), Op::Views]);
    println!("{}", c.render());
    println!("{}", c.to_json());
    println!("{:?}", run_case(&c, Opts::default()));
}
