//! Per-property definition of the case space, the way one case is executed (plain, crossed with
//! fillings, expanded into fault plans), and the non-triviality rule.

use crate::case::*;
use crate::gen_enum as ge;
use crate::interp::{fl, run_case, Opts, Outcome};
use crate::tracked::FaultKind;

#[derive(Debug, Clone, Copy, PartialEq, Eq, Hash)]
pub enum Prop {
    C01,
    C02,
    C03,
    C04,
    C05,
    C06,
    C07,
    C08,
    C09,
    C10,
    C11,
    C12,
    C20,
}

impl Prop {
    pub fn parse(s: &str) -> Option<Prop> {
        Some(match s {
            "C01" => Prop::C01,
            "C02" => Prop::C02,
            "C03" => Prop::C03,
            "C04" => Prop::C04,
            "C05" => Prop::C05,
            "C06" => Prop::C06,
            "C07" => Prop::C07,
            "C08" => Prop::C08,
            "C09" => Prop::C09,
            "C10" => Prop::C10,
            "C11" => Prop::C11,
            "C12" => Prop::C12,
            "C20" => Prop::C20,
            _ => return None,
        })
    }
    pub fn id(self) -> &'static str {
        match self {
            Prop::C01 => "C01",
            Prop::C02 => "C02",
            Prop::C03 => "C03",
            Prop::C04 => "C04",
            Prop::C05 => "C05",
            Prop::C06 => "C06",
            Prop::C07 => "C07",
            Prop::C08 => "C08",
            Prop::C09 => "C09",
            Prop::C10 => "C10",
            Prop::C11 => "C11",
            Prop::C12 => "C12",
            Prop::C20 => "C20",
        }
    }
    pub fn opts(self) -> Opts {
        Opts { reloc: self == Prop::C20, touch: true, strict_ctor: self == Prop::C12 }
    }

    /// capacities of the exhaustive single-step space
    pub fn caps(self, thorough: bool) -> Vec<usize> {
        let upto = |k: usize| (0..=k).collect::<Vec<_>>();
        match (self, thorough) {
            (Prop::C01, false) => vec![0, 1, 2, 3, 4, 5, 6, 7, 8, 9, 13, 16],
            (Prop::C01, true) => vec![0, 1, 2, 3, 4, 5, 6, 7, 8, 9, 10, 11, 12, 13, 16, 17, 32, 33],
            (Prop::C02, false) => vec![0, 1, 2, 3, 4, 5, 6, 7, 8, 9, 13, 16, 17, 32, 33, 64],
            (Prop::C02, true) => vec![0, 1, 2, 3, 4, 5, 6, 7, 8, 9, 10, 11, 12, 13, 16, 17, 31, 32, 33, 64, 65, 100, 128, 129],
            (Prop::C03, false) => upto(8),
            (Prop::C03, true) => upto(10),
            (Prop::C04, false) => upto(7),
            (Prop::C04, true) => upto(9),
            (Prop::C05, false) => upto(7),
            (Prop::C05, true) => upto(9),
            (Prop::C06, false) => upto(8),
            (Prop::C06, true) => upto(10),
            (Prop::C07, false) => vec![0, 1, 2, 3, 4, 5, 6, 7, 8, 9, 13, 16],
            (Prop::C07, true) => vec![0, 1, 2, 3, 4, 5, 6, 7, 8, 9, 10, 11, 12, 13, 16, 17, 32, 33],
            (Prop::C08, false) => upto(7),
            (Prop::C08, true) => upto(9),
            (Prop::C09, false) => upto(8),
            (Prop::C09, true) => upto(10),
            (Prop::C10, false) => upto(8),
            (Prop::C10, true) => upto(10),
            (Prop::C11, false) => upto(8),
            (Prop::C11, true) => upto(10),
            (Prop::C12, false) => upto(9),
            (Prop::C12, true) => vec![0, 1, 2, 3, 4, 5, 6, 7, 8, 9, 10, 11, 12],
            (Prop::C20, false) => vec![0, 1, 2, 3, 4, 5, 6, 7, 8, 9, 13, 16, 33],
            (Prop::C20, true) => vec![0, 1, 2, 3, 4, 5, 6, 7, 8, 9, 10, 11, 12, 13, 16, 17, 32, 33, 64, 65],
        }
    }

    /// Capacities covered by the sparse boundary space (`gen_enum::large`) on top of the exhaustive ones.
    pub fn large_caps(self, thorough: bool) -> Vec<usize> {
        let v: Vec<usize> = match (self, thorough) {
            (Prop::C09 | Prop::C20, false) => vec![19, 23, 29, 32, 33, 64, 65, 128, 129, 256, 1000, 2048],
            (Prop::C01 | Prop::C03 | Prop::C07 | Prop::C08, false) => vec![19, 23, 29, 32, 33, 64, 65, 128, 129, 256, 1000],
            (Prop::C01 | Prop::C03 | Prop::C07 | Prop::C08 | Prop::C09 | Prop::C20, true) => vec![17, 19, 23, 24, 29, 31, 32, 33, 64, 65, 100, 128, 129, 255, 256, 1000, 2048],
            (Prop::C04 | Prop::C10 | Prop::C11 | Prop::C12, false) => vec![23, 33, 64, 65, 256],
            (Prop::C04 | Prop::C10 | Prop::C11 | Prop::C12, true) => vec![19, 23, 29, 32, 33, 64, 65, 128, 129, 256, 1000],
            (Prop::C05 | Prop::C06, false) => vec![23, 33, 64, 65, 256],
            (Prop::C05 | Prop::C06, true) => vec![32, 33, 64, 65, 128, 129, 256, 1000],
            _ => vec![],
        };
        let caps = self.caps(thorough);
        // the 256-byte element at capacity 2048 is half a MiB per buffer by value: left to the ordinary builds
        v.into_iter().filter(|n| !caps.contains(n) && !(cfg!(feature = "wide-elem") && *n > 1000)).collect()
    }

    pub fn rule(self) -> &'static str {
        match self {
            Prop::C01 => "non-trivial: the op changed the contents, returned Some/Err, hit a documented panic, or had a boundary/out-of-range argument; distinct by case hash (N, layout, op, arguments)",
            Prop::C02 => "non-trivial: the buffer was full (or N = 0) at an insertion; distinct by case hash",
            Prop::C03 => "non-trivial: at least one element was destroyed or handed to the caller by the case; distinct by case hash",
            Prop::C04 => "non-trivial: the buffer had an unoccupied slot at a call and the op read or moved elements; distinct by (case, filling/route) hash",
            Prop::C05 => "non-trivial: the injected destructor panic fired inside the operation under test; distinct by (case, k) hash",
            Prop::C06 => "non-trivial: the injected clone/closure/iterator/eq panic fired inside the operation under test; distinct by (case, kind, k) hash",
            Prop::C07 => "non-trivial: the buffer was non-empty at the access; distinct by case hash",
            Prop::C08 => "non-trivial: the script mixes next and next_back, or the selection crosses the physical wrap point; distinct by case hash",
            Prop::C09 => "non-trivial: a < b with elements behind the hole (b < len), or N = 0; distinct by case hash",
            Prop::C10 => "non-trivial: the drain had yielded at least one element before it was forgotten and the buffer had elements outside the range; distinct by case hash",
            Prop::C11 => "non-trivial: boundary / out-of-range / usize::MAX argument, a documented panic, or N <= 1; distinct by case hash",
            Prop::C12 => "non-trivial: the source (array, iterator, cloned buffer) was non-empty; distinct by case hash",
            Prop::C20 => "non-trivial: at least 3 elements in the buffer at the call (so that the bound of 2 can be exceeded); distinct by case hash",
        }
    }

    pub fn nontrivial(self, _case: &Case, f: u64) -> bool {
        match self {
            Prop::C01 => f & (fl::CHANGED | fl::RETURNED | fl::DOC_PANIC | fl::BOUNDARY_ARG) != 0,
            Prop::C02 => f & fl::WAS_FULL != 0,
            Prop::C03 => f & (fl::DESTROYED | fl::HANDED_OUT) != 0,
            Prop::C04 => f & fl::HAD_FREE != 0 && f & fl::READ_OR_MOVED != 0,
            Prop::C05 | Prop::C06 => f & fl::FAULT_FIRED != 0,
            Prop::C07 => f & fl::NONEMPTY != 0,
            Prop::C08 => f & (fl::MIXED_DIR | fl::SEL_WRAPS) != 0,
            Prop::C09 => f & (fl::DRAIN_MID | fl::ZERO_CAP) != 0,
            Prop::C10 => f & fl::FORGET_AFTER_YIELD != 0 && f & fl::OUTSIDE_RANGE != 0,
            Prop::C11 => f & (fl::BOUNDARY_ARG | fl::DOC_PANIC | fl::CAP_LE1) != 0,
            Prop::C12 => f & (fl::M_NONZERO | fl::NONEMPTY) != 0,
            Prop::C20 => f & fl::LEN3 != 0,
        }
    }

    pub fn enum_cases(self, n: usize, start: usize, len: usize, thorough: bool) -> Vec<Item> {
        let plain = |v: Vec<Case>| v.into_iter().map(|c| Item { case: c, kinds: vec![] }).collect::<Vec<_>>();
        if !self.caps(thorough).contains(&n) {
            // a unit of the sparse boundary space for the larger capacities
            let kinds = match self {
                Prop::C05 => vec![FaultKind::Drop],
                Prop::C06 => vec![FaultKind::Clone, FaultKind::Make, FaultKind::IterStep, FaultKind::Eq],
                _ => vec![],
            };
            return ge::large(n, start, len).into_iter().map(|c| Item { case: c, kinds: kinds.clone() }).collect();
        }
        match self {
            Prop::C01 => plain(ge::c01(n, start, len)),
            Prop::C02 => plain(ge::c02(n, start, len)),
            Prop::C03 => plain(ge::c03(n, start, len, thorough)),
            Prop::C04 => plain(ge::c04_base(n, start, len)),
            Prop::C05 => ge::c05_base(n, start, len).into_iter().map(|c| Item { case: c, kinds: vec![FaultKind::Drop] }).collect(),
            Prop::C06 => ge::c06_base(n, start, len).into_iter().map(|(c, k)| Item { case: c, kinds: k }).collect(),
            Prop::C07 => plain(ge::c07(n, start, len)),
            Prop::C08 => plain(ge::c08(n, start, len)),
            Prop::C09 => {
                let mut v = plain(ge::c09(n, start, len, End::Drop));
                // a panic in a closure handed to fold / rfold / position unwinds through the drain: the removal must
                // still be exact (every element of the range destroyed once or handed out once, the rest in place)
                for a in 0..=len {
                    for b in a..=len {
                        if b - a < 2 {
                            continue;
                        }
                        for script in [vec![Step::Fold], vec![Step::RFold], vec![Step::Next, Step::RFold], vec![Step::NextBack, Step::Fold], vec![Step::FindMid], vec![Step::RFindMid],
                                       vec![Step::Via(0)], vec![Step::Via(1)], vec![Step::Via(2)], vec![Step::Via(3)], vec![Step::Via(4)], vec![Step::Via(5)], vec![Step::Via(6)], vec![Step::Via(7)],
                                       vec![Step::NextBack, Step::Via(0)], vec![Step::Next, Step::Via(1)]] {
                            v.push(Item { case: Case::simple(n, start, len, vec![Op::Drain(ge::canonical(a, b), script, End::Drop), Op::Views, Op::PushBack]), kinds: vec![FaultKind::Make] });
                        }
                    }
                }
                v
            }
            Prop::C10 => plain(ge::c09(n, start, len, End::Forget)),
            Prop::C11 => plain(ge::c11(n, start, len)),
            Prop::C12 => {
                let mut v = plain(ge::c12(n, start, len));
                // "destroys the rest exactly once": one of the discarded elements has a destructor that panics
                for m in 1..=(2 * n + 2) as u32 {
                    if n <= crate::deq::FROM_ARRAY_MAX_N && m as usize <= crate::deq::FROM_ARRAY_MAX_M {
                        v.push(Item { case: Case::simple(n, start, len, vec![Op::FromArray(m), Op::Views, Op::PushBack]), kinds: vec![FaultKind::Drop] });
                    }
                    v.push(Item { case: Case::simple(n, start, len, vec![Op::FromIter(m, Hint::Exact), Op::Views, Op::PushBack]), kinds: vec![FaultKind::Drop] });
                }
                v
            }
            Prop::C20 => plain(ge::c20(n, start, len)),
        }
    }
}

#[derive(Debug, Clone)]
pub struct Item {
    pub case: Case,
    /// fault kinds to enumerate for this case (C05/C06)
    pub kinds: Vec<FaultKind>,
}

/// Result of executing one item: the runs it expanded into.
pub struct ItemResult {
    /// (case hash, flags) for every run
    pub runs: Vec<(u64, u64)>,
    pub digest: u64,
}

pub fn case_hash(c: &Case) -> u64 {
    use std::hash::{Hash, Hasher};
    let mut h = std::collections::hash_map::DefaultHasher::new();
    c.hash(&mut h);
    h.finish()
}

fn fail_of(case: &Case, f: crate::interp::Failure) -> (Case, String) {
    (case.clone(), f.msg)
}

/// Executes one item the way its property demands.  On failure returns the exact case that
/// fails when replayed through `exec_replay`.
pub fn exec_item(prop: Prop, item: &Item) -> Result<ItemResult, (Case, String)> {
    let opts = prop.opts();
    let mut runs = Vec::new();
    match prop {
        Prop::C04 => {
            struct Neutral;
            impl Drop for Neutral {
                fn drop(&mut self) {
                    crate::interp::set_layout_neutral(false);
                }
            }
            crate::interp::set_layout_neutral(true);
            let _neutral = Neutral;
            // (i)+(ii): every filling; (iii): traces identical across fillings and routes
            let mut first: Option<(Fill, Outcome)> = None;
            for fill in ALL_FILLS {
                let mut c = item.case.clone();
                c.fill = *fill;
                let o = run_case(&c, opts).map_err(|f| fail_of(&c, f))?;
                runs.push((case_hash(&c), o.flags));
                match &first {
                    None => first = Some((*fill, o)),
                    Some((f0, o0)) => {
                        if o0.digest != o.digest {
                            return Err((c, format!("observable trace differs between filling {:?} and {:?} of the unoccupied slots", f0, fill)));
                        }
                    }
                }
            }
            let d0 = first.as_ref().unwrap().1.digest;
            for route in ALL_ROUTES.iter().skip(1) {
                let mut c = item.case.clone();
                c.route = *route;
                let o = run_case(&c, opts).map_err(|f| fail_of(&c, f))?;
                runs.push((case_hash(&c), o.flags));
                if o.digest != d0 {
                    return Err((c, format!("observable trace differs between construction routes PushPop and {:?} for the same logical contents", route)));
                }
            }
            // the trace is a function of the logical contents only: the same contents at another
            // front position must give the same trace
            let n = item.case.n;
            if n > 0 {
                let mut others = vec![0, (item.case.start + 1) % n, n - 1];
                others.sort_unstable();
                others.dedup();
                for s2 in others {
                    if s2 == item.case.start {
                        continue;
                    }
                    let mut c = item.case.clone();
                    c.start = s2;
                    let o = run_case(&c, opts).map_err(|f| fail_of(&c, f))?;
                    runs.push((case_hash(&c), o.flags));
                    if o.digest != d0 {
                        c.fill = Fill::Leave;
                        return Err((c, format!("observable trace differs between front position {} and front position {} for the same logical contents and operations", item.case.start, s2)));
                    }
                }
            }
            Ok(ItemResult { runs, digest: d0 })
        }
        _ if matches!(prop, Prop::C05 | Prop::C06) || !item.kinds.is_empty() => {
            // counting run, then one faulted run per user-code event inside the op under test
            let mut c0 = item.case.clone();
            c0.fault = None;
            // count only inside op 0 (or the final drop if there are no ops)
            let probe = Case { ops: c0.ops.iter().take(1).cloned().collect(), ..c0.clone() };
            let o = run_case(&probe, opts).map_err(|f| fail_of(&probe, f))?;
            let o_full = run_case(&c0, opts).map_err(|f| fail_of(&c0, f))?;
            runs.push((case_hash(&c0), o_full.flags));
            let mut digest = o_full.digest;
            let op_index = 0u32;
            for kind in &item.kinds {
                let d = if probe.ops.is_empty() {
                    // events of the final drop
                    o.counts[*kind as usize]
                } else {
                    o.counts[*kind as usize]
                };
                // every fault point; for long operations (larger capacities) the points around the ends, the middle
                // and the thresholds 32 / 64 / 128 / 256
                let ks: Vec<u32> = if d <= 80 {
                    (1..=d).collect()
                } else {
                    let mut v: Vec<u32> = vec![1, 2, 3, 31, 32, 33, 34, 63, 64, 65, 66, 127, 128, 129, 255, 256, 257, d / 2, d / 2 + 1, d - 2, d - 1, d];
                    v.retain(|k| *k >= 1 && *k <= d);
                    v.sort_unstable();
                    v.dedup();
                    v
                };
                for k in ks {
                    let mut c = c0.clone();
                    c.fault = Some(Fault { kind: *kind, k, op_index: if c0.ops.is_empty() { 0 } else { op_index } });
                    let o = run_case(&c, opts).map_err(|f| fail_of(&c, f))?;
                    runs.push((case_hash(&c), o.flags));
                    digest = digest.wrapping_mul(0x100000001b3) ^ o.digest;
                    if c.n <= 6 || k <= 2 {
                        // the same fault while the thread is already unwinding from an unrelated panic (the call is made
                        // from a destructor): guards that consult `thread::panicking()` behave differently there
                        let mut cu = c.clone();
                        cu.unwinding = true;
                        let ou = run_case(&cu, opts).map_err(|f| fail_of(&cu, f))?;
                        runs.push((case_hash(&cu), ou.flags));
                        if ou.digest != o.digest {
                            return Err((cu, "the observable trace of this faulted history differs when the calls are made while the thread is already unwinding".to_string()));
                        }
                    }
                    if prop == Prop::C06 && *kind != FaultKind::Eq {
                        let pf = crate::plain_engine::run_plain_case(&c).map_err(|m| (c.clone(), m))?;
                        if pf & crate::plain_engine::PF_FAULT_FIRED != 0 {
                            runs.push((case_hash(&c) ^ PLAIN_SALT, o.flags));
                        }
                    }
                }
            }
            Ok(ItemResult { runs, digest })
        }
        _ => {
            let o = run_case(&item.case, opts).map_err(|f| fail_of(&item.case, f))?;
            runs.push((case_hash(&item.case), o.flags));
            if matches!(prop, Prop::C01 | Prop::C03 | Prop::C09 | Prop::C10) {
                // the same case over an element type without a destructor (needs_drop == false)
                crate::plain_engine::run_plain_case(&item.case).map_err(|m| (item.case.clone(), m))?;
                runs.push((case_hash(&item.case) ^ PLAIN_SALT, o.flags));
            }
            Ok(ItemResult { runs, digest: o.digest })
        }
    }
}

pub const PLAIN_SALT: u64 = 0x51A1_51A1_51A1_51A1;

/// Turns an unresolved fault choice into a concrete fault plan by a fault-free counting run.
pub fn resolve_fault(prop: Prop, case: &Case) -> Case {
    let mut c = case.clone();
    let Some((kind, e_op, e_k)) = c.fault_pick.take() else { return c };
    c.fault = None;
    let Ok(o) = run_case(&c, prop.opts()) else { return c };
    let elig = |kind: FaultKind| -> Vec<(usize, u32)> {
        o.counts_per_op.iter().enumerate().filter(|(_, cnt)| cnt[kind as usize] > 0).map(|(i, cnt)| (i, cnt[kind as usize])).collect()
    };
    let mut kind = kind;
    let mut eligible = elig(kind);
    if eligible.is_empty() && kind != FaultKind::Drop {
        // the history runs no user code of the chosen kind: fall back to a kind it does run
        for k2 in [FaultKind::Clone, FaultKind::IterStep, FaultKind::Make, FaultKind::Eq] {
            let e = elig(k2);
            if !e.is_empty() {
                kind = k2;
                eligible = e;
                break;
            }
        }
    }
    if eligible.is_empty() {
        return c;
    }
    let (op_index, cnt) = eligible[(e_op as usize * eligible.len()) >> 16];
    let k = 1 + ((e_k as u32 * cnt) >> 16);
    c.fault = Some(Fault { kind, k, op_index: op_index as u32 });
    c
}

/// Replays one saved case under the property's oracles (bypasses all generators).
pub fn exec_replay(prop: Prop, case: &Case) -> Result<(u64, u64), String> {
    let opts = prop.opts();
    let resolved;
    let case = if case.fault_pick.is_some() {
        resolved = resolve_fault(prop, case);
        &resolved
    } else {
        case
    };
    match prop {
        Prop::C04 => {
            struct Neutral;
            impl Drop for Neutral {
                fn drop(&mut self) {
                    crate::interp::set_layout_neutral(false);
                }
            }
            crate::interp::set_layout_neutral(true);
            let _neutral = Neutral;
            let o = run_case(case, opts).map_err(|f| f.msg)?;
            let mut base = case.clone();
            base.fill = Fill::Leave;
            base.route = Route::PushPop;
            let o0 = run_case(&base, opts).map_err(|f| f.msg)?;
            if o.digest != o0.digest {
                return Err(format!(
                    "observable trace under filling {:?} / route {:?} differs from the trace under Leave / PushPop",
                    case.fill, case.route
                ));
            }
            if case.n > 0 {
                for s2 in [0, (case.start + 1) % case.n, case.n - 1] {
                    if s2 == case.start {
                        continue;
                    }
                    let mut alt = base.clone();
                    alt.start = s2;
                    let oa = run_case(&alt, opts).map_err(|f| f.msg)?;
                    if oa.digest != o0.digest {
                        return Err(format!(
                            "observable trace at front position {} differs from the trace at front position {s2} for the same logical contents and operations",
                            case.start
                        ));
                    }
                }
            }
            Ok((o.flags, o.digest))
        }
        _ => {
            let o = run_case(case, opts).map_err(|f| f.msg)?;
            if matches!(prop, Prop::C01 | Prop::C03 | Prop::C06 | Prop::C09 | Prop::C10) {
                crate::plain_engine::run_plain_case(case)?;
            }
            Ok((o.flags, o.digest))
        }
    }
}
