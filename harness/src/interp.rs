//! The interpreter: runs one `Case` against the real crate and against the reference model,
//! applying every oracle after every operation (DESIGN 2.2, 2.4, 2.6).

use crate::case::*;
use crate::deq::{make_buf, Ctor, Deq};
use crate::tracked::{self as ledger, Ev, Injected, Tracked};
use std::panic::{catch_unwind, AssertUnwindSafe};

pub const ELEM: usize = std::mem::size_of::<Tracked>();

// ---- facts about a run, used by the per-property non-triviality rules -------------------
pub mod fl {
    pub const CHANGED: u64 = 1 << 0; // contents changed
    pub const RETURNED: u64 = 1 << 1; // returned Some / Err
    pub const WAS_FULL: u64 = 1 << 2; // buffer full (or N == 0) at a push
    pub const WRAPPED: u64 = 1 << 3; // occupied range crossed the array end at some call
    pub const FREE_SPLIT: u64 = 1 << 4; // free space was split in two at some call
    pub const HAD_FREE: u64 = 1 << 5; // at least one unoccupied slot at some call
    pub const DESTROYED: u64 = 1 << 6; // at least one element destroyed
    pub const HANDED_OUT: u64 = 1 << 7; // at least one element handed to the caller
    pub const FAULT_FIRED: u64 = 1 << 8; // injected panic fired inside the op under test
    pub const MIXED_DIR: u64 = 1 << 9; // script used both next and next_back
    pub const SEL_WRAPS: u64 = 1 << 10; // selected range crosses the wrap point
    pub const DRAIN_MID: u64 = 1 << 11; // a < b and b < len
    pub const FORGET_AFTER_YIELD: u64 = 1 << 12;
    pub const BOUNDARY_ARG: u64 = 1 << 13; // index == len-1, len, len+1, MAX or similar
    pub const DOC_PANIC: u64 = 1 << 14; // a documented panic happened
    pub const ZERO_CAP: u64 = 1 << 15;
    pub const LAYOUT_MISSED: u64 = 1 << 16; // intended layout not reached (coverage note)
    pub const READ_OR_MOVED: u64 = 1 << 17; // op read or moved elements
    pub const LEN3: u64 = 1 << 18; // len >= 3 at a call
    pub const NONEMPTY: u64 = 1 << 19;
    pub const OUTSIDE_RANGE: u64 = 1 << 20; // buffer had elements outside the drained range
    pub const LEAKED: u64 = 1 << 21; // some element leaked (permitted cases only)
    pub const FORGOT: u64 = 1 << 22;
    pub const SKIPPED: u64 = 1 << 23; // op not applicable in this state, skipped
    pub const CAP_LE1: u64 = 1 << 24;
    pub const M_NONZERO: u64 = 1 << 25; // constructor source non-empty
    pub const USER_PANIC_NONDROP: u64 = 1 << 26;
}

#[derive(Debug, Clone, Copy)]
pub struct Opts {
    /// check the relocation bounds of C20
    pub reloc: bool,
    /// check that user code only ran on elements the call may look at
    pub touch: bool,
    /// C12: a conversion that discards elements destroys each of them exactly once, also when one of their destructors panics
    pub strict_ctor: bool,
}

impl Default for Opts {
    fn default() -> Self {
        Opts { reloc: false, touch: true, strict_ctor: false }
    }
}

#[derive(Debug, Clone, Default)]
pub struct Outcome {
    pub flags: u64,
    pub digest: u64,
    /// observed physical start slot after construction
    pub start_slot: Option<usize>,
    /// user-code event counts inside the op the fault plan points at (fault-free counting run)
    pub counts: [u32; 5],
    pub leaked: u32,
    pub max_reloc: u32,
    /// user-code event counts of every op (last entry: the final drop)
    pub counts_per_op: Vec<[u32; 5]>,
}

#[derive(Debug, Clone)]
pub struct Failure {
    pub msg: String,
    pub op_index: Option<usize>,
}

pub type R<T> = Result<T, String>;

fn fnv(h: &mut u64, x: u64) {
    for b in x.to_le_bytes() {
        *h ^= b as u64;
        *h = h.wrapping_mul(0x100000001b3);
    }
}

pub fn panic_msg(p: &Box<dyn std::any::Any + Send>) -> String {
    if let Some(s) = p.downcast_ref::<&str>() {
        s.to_string()
    } else if let Some(s) = p.downcast_ref::<String>() {
        s.clone()
    } else {
        "<non-string payload>".into()
    }
}

pub enum Called<T> {
    Ok(T),
    Injected,
    Panic(String),
}


thread_local! {
    static ITEMS_OFF: std::cell::RefCell<std::collections::HashMap<usize, usize>> = Default::default();
}

/// Offset of the element array inside `CircularBuffer<N, Tracked>`, found by filling a scratch
/// buffer: the minimum element address of a full buffer is slot 0.
pub fn items_offset(n: usize) -> usize {
    if n == 0 {
        return 0;
    }
    if let Some(o) = ITEMS_OFF.with(|m| m.borrow().get(&n).copied()) {
        return o;
    }
    let mut b = make_buf::<Tracked>(n, Ctor::New);
    for _ in 0..n {
        b.push_back(Tracked::inert());
    }
    let base = b.struct_addr();
    let mut min = usize::MAX;
    for i in 0..n {
        let a = b.get(i).map(|r| r as *const Tracked as usize).unwrap_or(usize::MAX);
        min = min.min(a);
    }
    let off = min.wrapping_sub(base);
    ITEMS_OFF.with(|m| m.borrow_mut().insert(n, off));
    off
}

#[derive(Clone, Copy, PartialEq, Eq, Debug)]
pub struct Obs {
    pub id: u32,
    pub val: u32,
    pub addr: usize,
}

pub struct St {
    pub n: usize,
    pub ctor: Ctor,
    pub buf: Option<Box<dyn Deq<Tracked>>>,
    pub model: Vec<(u32, u32)>,
    pub held: Vec<Tracked>,
    pub next_val: u32,
    pub items_off: usize,
    pub fill: Fill,
    pub salt: u64,
    /// separate stream for the poisoner so that interpreter choices do not depend on the filling
    pub salt_poison: u64,
    pub dead_ids: Vec<u32>,
    pub flags: u64,
    pub dig: u64,
    pub opts: Opts,
    pub unwinding: bool,
    /// leaks are tolerated from now on (a destructor panic was injected)
    pub leak_ok: bool,
    /// a non-destructor user panic was injected: leak checks are deferred to the final drop
    pub deferred_leak_check: bool,
    pub max_reloc: u32,
    pub last_obs: Vec<Obs>,
    pub pending_fault: Option<(crate::tracked::FaultKind, u32)>,
    pub fired: bool,
    pub op_counts: [u32; 5],
    /// ids user code may legitimately look at during the current op (besides the contents)
    pub allowed: Vec<u32>,
}

fn ctor_of(c: u8) -> Ctor {
    match c % 3 {
        0 => Ctor::New,
        1 => Ctor::Default,
        _ => Ctor::Boxed,
    }
}

impl St {
    pub(crate) fn rnd(&mut self) -> u64 {
        // xorshift64*, seeded from the case: every choice is a pure function of the case
        let mut x = self.salt | 1;
        x ^= x >> 12;
        x ^= x << 25;
        x ^= x >> 27;
        self.salt = x;
        x.wrapping_mul(0x2545F4914F6CDD1D)
    }

    pub(crate) fn mk(&mut self) -> Tracked {
        let v = self.next_val;
        self.next_val += 1;
        Tracked::new(v)
    }

    pub(crate) fn b(&self) -> &dyn Deq<Tracked> {
        &**self.buf.as_ref().expect("buffer present")
    }
    pub(crate) fn bm(&mut self) -> &mut dyn Deq<Tracked> {
        &mut **self.buf.as_mut().expect("buffer present")
    }

    pub(crate) fn model_ids(&self) -> Vec<u32> {
        self.model.iter().map(|x| x.0).collect()
    }

    /// Runs one call of the crate under `catch_unwind`.  The fault plan (if one is pending for
    /// this op) is armed exactly for the duration of the call, so user-code events of the
    /// harness itself are never counted or faulted.
    pub(crate) fn call<T>(&mut self, f: impl FnOnce(&mut dyn Deq<Tracked>) -> T) -> Called<T> {
        // the fault index counts user-code events over all crate calls of the current op
        match self.pending_fault {
            Some((k, n)) if !self.fired && n > self.op_counts[k as usize] => {
                ledger::arm(k, n - self.op_counts[k as usize])
            }
            _ => ledger::start_count(),
        }
        let buf = &mut **self.buf.as_mut().expect("buffer present");
        let r = guarded(self.unwinding, move || f(buf));
        let c = ledger::counts();
        for i in 0..5 {
            self.op_counts[i] += c[i];
        }
        self.fired |= ledger::disarm();
        match r {
            Ok(v) => Called::Ok(v),
            Err(p) => {
                if p.downcast_ref::<Injected>().is_some() {
                    Called::Injected
                } else {
                    Called::Panic(panic_msg(&p))
                }
            }
        }
    }

    /// Same, for calls that do not go through `self.buf` (constructors, consuming calls).
    pub(crate) fn call_free<T>(&mut self, f: impl FnOnce() -> T) -> Called<T> {
        // the fault index counts user-code events over all crate calls of the current op
        match self.pending_fault {
            Some((k, n)) if !self.fired && n > self.op_counts[k as usize] => {
                ledger::arm(k, n - self.op_counts[k as usize])
            }
            _ => ledger::start_count(),
        }
        let r = guarded(self.unwinding, f);
        let c = ledger::counts();
        for i in 0..5 {
            self.op_counts[i] += c[i];
        }
        self.fired |= ledger::disarm();
        match r {
            Ok(v) => Called::Ok(v),
            Err(p) => {
                if p.downcast_ref::<Injected>().is_some() {
                    Called::Injected
                } else {
                    Called::Panic(panic_msg(&p))
                }
            }
        }
    }

    /// Takes ownership of an element the crate handed back; it must be a live element that is
    /// not also still in the model or already held.
    pub(crate) fn hold(&mut self, t: Tracked) -> R<u32> {
        let id = match t.peek_id() {
            Ok(id) => id,
            Err(e) => {
                std::mem::forget(t);
                return Err(format!("crate handed out a bad element: {e}"));
            }
        };
        if self.held.iter().any(|h| h.raw_id() == id) {
            std::mem::forget(t);
            return Err(format!("crate handed out element id={id} twice (duplicate of a held element)"));
        }
        self.flags |= fl::HANDED_OUT;
        self.held.push(t);
        Ok(id)
    }

    // ------------------------------------------------------------------ observation (2.6)
    pub fn observe_buf(b: &dyn Deq<Tracked>, n: usize) -> R<Vec<Obs>> {
        let len = b.len();
        if len > n {
            return Err(format!("len() = {len} exceeds capacity {n}"));
        }
        if b.capacity() != n {
            return Err(format!("capacity() = {} but N = {n}", b.capacity()));
        }
        if b.is_empty() != (len == 0) {
            return Err(format!("is_empty() = {} with len() = {len}", b.is_empty()));
        }
        if b.is_full() != (len == n) {
            return Err(format!("is_full() = {} with len() = {len}, N = {n}", b.is_full()));
        }
        let mut out = Vec::with_capacity(len);
        let mut it = b.iter();
        if it.len() != len {
            return Err(format!("iter().len() = {} but len() = {len}", it.len()));
        }
        let mut guard = 0usize;
        while let Some(r) = it.next() {
            guard += 1;
            if guard > len {
                return Err(format!("iter() yields more than len() = {len} elements"));
            }
            let id = r.peek_id().map_err(|e| format!("iter() position {}: {e}", guard - 1))?;
            out.push(Obs { id, val: r.val(), addr: r as *const Tracked as usize });
        }
        if out.len() != len {
            return Err(format!("iter() yields {} elements but len() = {len}", out.len()));
        }
        // pairwise distinct
        let mut ids: Vec<u32> = out.iter().map(|o| o.id).collect();
        ids.sort_unstable();
        if ids.windows(2).any(|w| w[0] == w[1]) {
            return Err(format!("buffer contains the same element twice: ids {:?}", out.iter().map(|o| o.id).collect::<Vec<_>>()));
        }
        // the cheaper views must agree with iter()
        let full = len <= 64;
        let probe = |i: usize| -> R<()> {
            match b.get(i) {
                Some(r) if r as *const Tracked as usize == out[i].addr => Ok(()),
                Some(r) => Err(format!(
                    "get({i}) is at {:#x} but iter() position {i} is at {:#x}",
                    r as *const Tracked as usize, out[i].addr
                )),
                None => Err(format!("get({i}) = None with len() = {len}")),
            }
        };
        if full {
            for i in 0..len {
                probe(i)?;
            }
        } else {
            for i in [0, 1, len / 2, len - 2, len - 1] {
                probe(i)?;
            }
        }
        if b.get(len).is_some() {
            return Err(format!("get(len) = Some with len() = {len}"));
        }
        let (s1, s2) = b.as_slices();
        if s1.len() + s2.len() != len {
            return Err(format!("as_slices() lengths {}+{} but len() = {len}", s1.len(), s2.len()));
        }
        if full {
            for (i, r) in s1.iter().chain(s2.iter()).enumerate() {
                if r as *const Tracked as usize != out[i].addr {
                    return Err(format!("as_slices() position {i} differs from iter()"));
                }
            }
        }
        match (b.front(), out.first()) {
            (None, None) => {}
            (Some(r), Some(o)) if r as *const Tracked as usize == o.addr => {}
            _ => return Err("front() disagrees with iter()".into()),
        }
        match (b.back(), out.last()) {
            (None, None) => {}
            (Some(r), Some(o)) if r as *const Tracked as usize == o.addr => {}
            _ => return Err("back() disagrees with iter()".into()),
        }
        Ok(out)
    }

    pub(crate) fn observe(&self) -> R<Vec<Obs>> {
        Self::observe_buf(self.b(), self.n)
    }

    /// Physical slot of an element address, if it lies inside the element array.
    pub(crate) fn slot_of(&self, addr: usize) -> Option<usize> {
        let base = self.b().struct_addr() + self.items_off;
        let d = addr.checked_sub(base)?;
        if d % ELEM != 0 || d / ELEM >= self.n {
            return None;
        }
        Some(d / ELEM)
    }

    pub(crate) fn slots_of(&self, obs: &[Obs]) -> R<Vec<usize>> {
        obs.iter()
            .enumerate()
            .map(|(i, o)| {
                self.slot_of(o.addr)
                    .ok_or_else(|| format!("position {i} lives at {:#x}, outside the buffer's element storage", o.addr))
            })
            .collect()
    }

    /// Classifies the current physical layout into flags.
    pub(crate) fn note_layout(&mut self, obs: &[Obs]) -> R<()> {
        let n = self.n;
        if n == 0 {
            self.flags |= fl::ZERO_CAP | fl::CAP_LE1;
            return Ok(());
        }
        if n == 1 {
            self.flags |= fl::CAP_LE1;
        }
        let slots = self.slots_of(obs)?;
        if obs.len() < n {
            self.flags |= fl::HAD_FREE;
        }
        if obs.len() >= 3 {
            self.flags |= fl::LEN3;
        }
        if !obs.is_empty() {
            self.flags |= fl::NONEMPTY;
            let first = slots[0];
            let last = *slots.last().unwrap();
            if last < first {
                self.flags |= fl::WRAPPED;
            } else if first > 0 && last < n - 1 {
                self.flags |= fl::FREE_SPLIT;
            }
        }
        Ok(())
    }

    // ------------------------------------------------------------------ poisoning (2.4)
    pub(crate) fn poison(&mut self, obs: &[Obs]) -> R<()> {
        if self.fill == Fill::Leave || self.n == 0 {
            return Ok(());
        }
        let n = self.n;
        let slots = self.slots_of(obs)?;
        let mut occ = vec![false; n];
        for s in &slots {
            occ[*s] = true;
        }
        self.salt_poison = self.salt_poison.wrapping_mul(6364136223846793005).wrapping_add(1442695040888963407);
        let salt = (self.salt_poison >> 33) as usize;
        let mut pats: Vec<(usize, [u8; ELEM])> = Vec::new();
        for s in 0..n {
            if occ[s] {
                continue;
            }
            let bytes: [u8; ELEM] = match self.fill {
                Fill::Leave => unreachable!(),
                Fill::Zero => [0; ELEM],
                Fill::Ones => [0xFF; ELEM],
                Fill::X5A => [0x5A; ELEM],
                Fill::LiveCopy => {
                    if obs.is_empty() {
                        [0x5A; ELEM]
                    } else {
                        let o = obs[(s.wrapping_mul(7) + salt) % obs.len()];
                        // SAFETY: o.addr is a live element of the buffer observed just now
                        unsafe { std::ptr::read(o.addr as *const [u8; ELEM]) }
                    }
                }
                Fill::HeldCopy => {
                    if self.held.is_empty() {
                        [0xFF; ELEM]
                    } else {
                        let h = &self.held[(s + salt) % self.held.len()];
                        unsafe { std::ptr::read(h as *const Tracked as *const [u8; ELEM]) }
                    }
                }
                Fill::DeadCopy => {
                    if self.dead_ids.is_empty() {
                        [0; ELEM]
                    } else {
                        let id = self.dead_ids[(s + salt) % self.dead_ids.len()];
                        let val = ledger::slot(id).map(|x| x.val).unwrap_or(0);
                        let mut b = [0u8; ELEM];
                        b[0..4].copy_from_slice(&id.to_ne_bytes());
                        b[4..8].copy_from_slice(&val.to_ne_bytes());
                        b[8..16].copy_from_slice(&ledger::magic_for(id).to_ne_bytes());
                        b
                    }
                }
            };
            pats.push((s, bytes));
        }
        let off = self.items_off;
        let p = self.bm().raw_bytes();
        for (s, bytes) in pats {
            // SAFETY: `p` comes from `&mut` to the whole buffer object; slot `s` is inside its
            // `[MaybeUninit<T>; N]` and is currently unoccupied, so any bytes are legal there.
            unsafe {
                let dst = p.add(off + s * ELEM);
                #[cfg(not(miri))]
                std::ptr::copy_nonoverlapping(bytes.as_ptr(), dst, ELEM);
                #[cfg(miri)]
                {
                    let _ = bytes;
                    std::ptr::write(
                        dst as *mut std::mem::MaybeUninit<[u8; ELEM]>,
                        std::mem::MaybeUninit::uninit(),
                    );
                }
            }
        }
        Ok(())
    }

    // ------------------------------------------------------------------ layout construction
    /// Builds a buffer of capacity n whose contents are fresh elements with the given values,
    /// aiming at physical layout (start, vals.len()).  Junk elements used on the way are
    /// destroyed.  Returns the buffer and the ids of its contents.
    pub(crate) fn build(&mut self, n: usize, ctor: Ctor, route: Route, start: usize, vals: &[u32]) -> R<(Box<dyn Deq<Tracked>>, Vec<u32>)> {
        let mut b = make_buf::<Tracked>(n, ctor);
        let mut ids = Vec::new();
        if n == 0 {
            return Ok((b, ids));
        }
        let s = start % n;
        let mut junk_val = 9000u32;
        let mut junk = |dead: &mut Vec<u32>| {
            junk_val += 1;
            let t = Tracked::new(junk_val);
            dead.push(t.raw_id());
            t
        };
        let mut dead = Vec::new();
        match route {
            Route::PushPop => {
                for _ in 0..s {
                    let j = junk(&mut dead);
                    b.push_back(j);
                }
                for _ in 0..s {
                    b.pop_front();
                }
            }
            Route::PushFront => {
                for _ in 0..(n - s) {
                    let j = junk(&mut dead);
                    b.push_front(j);
                }
                let mut guard = 0;
                while b.pop_back().is_some() {
                    guard += 1;
                    if guard > n + 1 {
                        return Err("layout construction: pop_back keeps returning elements".into());
                    }
                }
            }
            Route::ExtendDrain => {
                let src: Vec<Tracked> = (0..n).map(|_| junk(&mut dead)).collect();
                b.extend_from_slice(&src);
                // the clones made by extend_from_slice are junk too
                for t in b.iter() {
                    dead.push(t.raw_id());
                }
                drop(src);
                for _ in 0..s {
                    let j = junk(&mut dead);
                    b.push_back(j);
                }
                drop(b.drain(crate::deq::RangeArg {
                    start: std::ops::Bound::Unbounded,
                    end: std::ops::Bound::Unbounded,
                    native: true,
                }));
            }
            Route::Truncate => {
                for _ in 0..n {
                    let j = junk(&mut dead);
                    b.push_back(j);
                }
                b.truncate_front(n - s);
                b.clear();
            }
        }
        if b.len() != 0 {
            return Err(format!("layout construction: buffer not empty after setup (len {})", b.len()));
        }
        for v in vals.iter().take(n) {
            let t = Tracked::new(*v);
            ids.push(t.raw_id());
            b.push_back(t);
        }
        self.dead_ids.extend(dead);
        Ok((b, ids))
    }
}

pub fn run_case(case: &Case, opts: Opts) -> Result<Outcome, Failure> {
    crate::runner::set_current(Some(case));
    let r = crate::interp_ops::run_case_impl(case, opts);
    crate::runner::set_current(None);
    r
}

/// Payload of the outer panic of `guarded`.
struct OuterUnwind;

/// Runs `f` under catch_unwind; with `unwinding`, from inside a destructor that runs while the thread is unwinding
/// from an unrelated panic, so that `std::thread::panicking()` is true for the whole call.
pub(crate) fn guarded<T>(unwinding: bool, f: impl FnOnce() -> T) -> std::thread::Result<T> {
    if !unwinding {
        return catch_unwind(AssertUnwindSafe(f));
    }
    struct OnDrop<F: FnOnce()>(Option<F>);
    impl<F: FnOnce()> Drop for OnDrop<F> {
        fn drop(&mut self) {
            if let Some(f) = self.0.take() {
                f()
            }
        }
    }
    let mut out: Option<std::thread::Result<T>> = None;
    {
        let slot = &mut out;
        let _ = catch_unwind(AssertUnwindSafe(move || {
            let _g = OnDrop(Some(move || {
                *slot = Some(catch_unwind(AssertUnwindSafe(f)));
            }));
            std::panic::resume_unwind(Box::new(OuterUnwind));
        }));
    }
    out.expect("the destructor ran")
}

pub(crate) fn new_state(case: &Case, opts: Opts) -> St {
    let n = case.n as usize;
    St {
        n,
        ctor: ctor_of(case.ctor),
        buf: None,
        model: Vec::new(),
        held: Vec::new(),
        next_val: 2000,
        items_off: items_offset(n),
        fill: case.fill,
        salt: 0x9E37_79B9_7F4A_7C15 ^ ((case.salt as u64) << 17) ^ case.n as u64,
        salt_poison: case.salt as u64 ^ 0xABCD,
        dead_ids: Vec::new(),
        flags: 0,
        dig: 0xcbf29ce484222325,
        opts,
        unwinding: case.unwinding,
        leak_ok: false,
        deferred_leak_check: false,
        max_reloc: 0,
        last_obs: Vec::new(),
        pending_fault: None,
        fired: false,
        op_counts: [0; 5],
        allowed: Vec::new(),
    }
}

// helpers shared with interp_ops
impl St {
    pub(crate) fn dig(&mut self, x: u64) {
        fnv(&mut self.dig, x);
    }
    pub(crate) fn events_to_err(&mut self) -> R<()> {
        let ev = ledger::take_events();
        if let Some(e) = ev.first() {
            return Err(match e {
                Ev::DoubleDrop { id } => format!("element id={id} destroyed a second time"),
                Ev::GarbageDestroyed { id, magic } => {
                    format!("destructor ran on non-element bytes (id={id:#x} magic={magic:#x})")
                }
                Ev::GarbageTouched { id, magic, what } => {
                    format!("{what} ran on non-element bytes (id={id:#x} magic={magic:#x})")
                }
                Ev::DeadTouched { id, what } => format!("{what} ran on destroyed element id={id}"),
            });
        }
        Ok(())
    }
}

pub enum Flow {
    Done,
    Injected,
}


thread_local! {
    /// text produced by undocumented-format Debug impls during the current op: not compared with an
    /// expected string, but part of the trace (it must not depend on layout, filling or build)
    static SIDE_DIGEST: std::cell::Cell<u64> = const { std::cell::Cell::new(0) };
}

thread_local! {
    /// set while a case runs under the cross-layout comparison of C04: observations whose value may legitimately depend
    /// on where the contents wrap (how far a search got before its predicate panicked) are then left out of the trace
    static LAYOUT_NEUTRAL: std::cell::Cell<bool> = const { std::cell::Cell::new(false) };
}
pub fn set_layout_neutral(on: bool) {
    LAYOUT_NEUTRAL.with(|c| c.set(on));
}
pub(crate) fn layout_neutral() -> bool {
    LAYOUT_NEUTRAL.with(|c| c.get())
}

/// Adds a number to the side digest of the current op.
pub(crate) fn side_dig(v: u64) {
    SIDE_DIGEST.with(|c| c.set((c.get() ^ v ^ 0x9E37_79B9_7F4A_7C15).wrapping_mul(0x100000001b3)));
}

/// Payload of the panic thrown by the predicate of `Step::PanicSearch`.
pub(crate) struct PredicatePanic;

pub(crate) fn take_side_digest() -> u64 {
    SIDE_DIGEST.with(|c| c.replace(0))
}

/// Format-agnostic oracle for the Debug output of iterators and drains (whose text the crate does
/// not document): formatting may only look at the elements that are still to be produced.
/// Runs `f` without recording which elements user code looked at.
pub(crate) fn untracked<T>(f: impl FnOnce() -> T) -> T {
    let saved = ledger::take_touched();
    let r = f();
    ledger::take_touched();
    ledger::with(|l| l.touched = saved);
    r
}

pub(crate) fn debug_touches_only(what: &str, remaining: &[u32], f: impl FnOnce() -> String) -> R<()> {
    let saved = ledger::take_touched();
    let text = f();
    SIDE_DIGEST.with(|c| {
        let mut h = c.get() ^ 0xcbf29ce484222325;
        for b in text.bytes() {
            h = (h ^ b as u64).wrapping_mul(0x100000001b3);
        }
        c.set(h)
    });
    let touched = ledger::take_touched();
    ledger::with(|l| l.touched = saved);
    for t in touched {
        if !remaining.contains(&t) {
            return Err(format!(
                "formatting {what} with {{:?}} looked at element id={t}, which is not one of the elements it still has to produce {:?} (output: {text})",
                remaining
            ));
        }
    }
    Ok(())
}
