//! An element type that is `Copy` *and* has a hand-written `Clone` that is observable (it counts its calls and
//! returns a different value).  The standard library asks for `clone` to agree with a copy for such types and
//! specialises a few of its own routines on `Copy`, so there is no absolute oracle here; but whether the crate runs
//! `Clone::clone` or copies bits is an element lifecycle event, and C18 says the `unstable` build produces the same
//! ones as the default build.  This engine prints one line per (capacity, layout, operation) with the number of
//! `clone` calls and the resulting values; lib/engines.py compares the lines of the two builds.
use circular_buffer::CircularBuffer;
use std::cell::Cell;

thread_local! {
    static CLONES: Cell<u64> = const { Cell::new(0) };
}

#[derive(Copy, Debug, PartialEq, Eq)]
pub struct Cc(pub u8);

impl Clone for Cc {
    fn clone(&self) -> Self {
        CLONES.with(|c| c.set(c.get() + 1));
        Cc(self.0.wrapping_add(100))
    }
}

fn clones() -> u64 {
    CLONES.with(|c| c.replace(0))
}

fn mk<const N: usize>(start: usize, len: usize) -> CircularBuffer<N, Cc> {
    let mut b = CircularBuffer::<N, Cc>::new();
    for _ in 0..start {
        b.push_back(Cc(0));
        b.pop_front();
    }
    for i in 0..len {
        b.push_back(Cc(i as u8 + 1));
    }
    b
}

pub const OPS: [&str; 13] = [
    "clone", "clone_from", "to_vec", "extend_from_slice", "fill", "fill_spare", "into_iter.clone", "iter.cloned", "iter.copied",
    "extend(&T)", "from_iter(cloned)", "range.cloned.rev", "clone.clone_from(self)",
];

fn vals(it: impl Iterator<Item = Cc>) -> Vec<u8> {
    it.map(|c| c.0).collect()
}

fn one<const N: usize>(start: usize, len: usize, op: usize) -> (u64, Vec<u8>) {
    let mut b = mk::<N>(start, len);
    clones();
    let out: Vec<u8> = match op {
        0 => vals(b.clone().into_iter()),
        1 => {
            let mut d = mk::<N>(if N > 1 { 1 } else { 0 }, N.min(1));
            clones();
            d.clone_from(&b);
            vals(d.into_iter())
        }
        2 => vals(b.to_vec().into_iter()),
        3 => {
            b.extend_from_slice(&[Cc(201), Cc(202), Cc(203)]);
            vals(b.into_iter())
        }
        4 => {
            b.fill(Cc(9));
            vals(b.into_iter())
        }
        5 => {
            b.fill_spare(Cc(9));
            vals(b.into_iter())
        }
        6 => {
            let mut it = b.into_iter();
            it.next();
            vals(it.clone())
        }
        7 => vals(b.iter().cloned()),
        8 => vals(b.iter().copied()),
        9 => {
            let src = [Cc(201), Cc(202), Cc(203)];
            b.extend(src.iter());
            vals(b.into_iter())
        }
        10 => vals(b.iter().cloned().collect::<CircularBuffer<N, Cc>>().into_iter()),
        11 => vals(b.range(..).cloned().rev()),
        _ => {
            let mut c = b.clone();
            c.clone_from(&b);
            vals(c.into_iter())
        }
    };
    (clones(), out)
}

fn all<const N: usize>(lines: &mut Vec<String>) {
    for start in 0..N.max(1) {
        for len in 0..=N {
            for op in 0..OPS.len() {
                let (c, v) = one::<N>(start, len, op);
                lines.push(format!("N={N} start={start} len={len} {}: clone calls {c}, values {v:?}", OPS[op]));
            }
        }
    }
}

pub fn run() -> Vec<String> {
    let mut lines = Vec::new();
    all::<0>(&mut lines);
    all::<1>(&mut lines);
    all::<2>(&mut lines);
    all::<3>(&mut lines);
    all::<4>(&mut lines);
    all::<5>(&mut lines);
    all::<8>(&mut lines);
    all::<33>(&mut lines);
    lines
}
