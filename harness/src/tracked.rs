//! Element type with identity and a thread-local ledger (DESIGN 2.1).
//!
//! `Tracked` owns no heap memory, so running any of its methods on garbage bytes or on an already
//! destroyed copy is harmless in itself and is *recorded* instead of crashing.

use std::cell::RefCell;
use std::cmp::Ordering;
use std::fmt;
use std::hash::{Hash, Hasher};

pub const MAGIC_BASE: u64 = 0xC1BC_5EED_A11F_E000;
pub const TOMB_BASE: u64 = 0xDEAD_7011_B000_0000;
pub const INERT_MAGIC: u64 = 0x1E27_1E27_1E27_1E27;

#[inline]
pub fn magic_for(id: u32) -> u64 {
    MAGIC_BASE ^ (id as u64).wrapping_mul(0x9E37_79B9_7F4A_7C15)
}
#[inline]
pub fn tomb_for(id: u32) -> u64 {
    TOMB_BASE ^ (id as u64).wrapping_mul(0xD6E8_FEB8_6659_FD93)
}

/// Payload of injected panics; lets the harness tell its own faults from the crate's panics.
#[derive(Debug, Clone, Copy, PartialEq, Eq)]
pub struct Injected(pub FaultKind, pub u32);

#[derive(Debug, Clone, Copy, PartialEq, Eq, Hash, PartialOrd, Ord, serde::Serialize, serde::Deserialize)]
pub enum FaultKind {
    Drop = 0,
    Clone = 1,
    Make = 2,
    IterStep = 3,
    Eq = 4,
}

impl FaultKind {
    pub fn name(self) -> &'static str {
        match self {
            FaultKind::Drop => "drop",
            FaultKind::Clone => "clone",
            FaultKind::Make => "make",
            FaultKind::IterStep => "iter",
            FaultKind::Eq => "eq",
        }
    }
    pub fn parse(s: &str) -> Option<Self> {
        Some(match s {
            "drop" => FaultKind::Drop,
            "clone" => FaultKind::Clone,
            "make" => FaultKind::Make,
            "iter" => FaultKind::IterStep,
            "eq" => FaultKind::Eq,
            _ => return None,
        })
    }
}

#[derive(Debug, Clone, PartialEq, Eq)]
pub enum Ev {
    /// a destructor ran on bytes that are not an element at all
    GarbageDestroyed { id: u32, magic: u64 },
    /// a destructor ran on an element that had already been destroyed
    DoubleDrop { id: u32 },
    /// clone/eq/cmp/hash/debug on bytes that are not an element
    GarbageTouched { id: u32, magic: u64, what: &'static str },
    /// clone/eq/cmp/hash/debug on an element that has been destroyed
    DeadTouched { id: u32, what: &'static str },
}

#[derive(Debug, Clone, Copy)]
pub struct Slot {
    pub val: u32,
    pub alive: bool,
    pub drops: u32,
    /// 0 = made by the harness, otherwise the id this one was cloned from
    pub origin: u32,
}

#[derive(Default)]
pub struct Ledger {
    pub slots: Vec<Slot>,
    pub events: Vec<Ev>,
    pub touched: Vec<u32>,
    /// lifecycle log: (kind, val) with kind 'N' new, 'C' clone, 'D' drop - val based so that it is
    /// comparable across construction routes
    pub log: Vec<(u8, u32)>,
    pub counts: [u32; 5],
    pub fault: Option<(FaultKind, u32)>,
    pub fired: bool,
    pub record_log: bool,
    pub live: u32,
}

thread_local! {
    pub static LEDGER: RefCell<Ledger> = RefCell::new(Ledger::default());
}

pub fn reset() {
    LEDGER.with(|l| {
        let mut l = l.borrow_mut();
        l.slots.clear();
        l.slots.push(Slot { val: 0, alive: false, drops: 0, origin: 0 });
        l.events.clear();
        l.touched.clear();
        l.log.clear();
        l.counts = [0; 5];
        l.fault = None;
        l.fired = false;
        l.record_log = true;
        l.live = 0;
    })
}

pub fn with<R>(f: impl FnOnce(&mut Ledger) -> R) -> R {
    LEDGER.with(|l| f(&mut l.borrow_mut()))
}

/// Arms a fault: the `k`-th (1-based) event of `kind` from now on panics once.
pub fn arm(kind: FaultKind, k: u32) {
    with(|l| {
        l.counts = [0; 5];
        l.fault = Some((kind, k));
        l.fired = false;
    })
}
/// Starts counting user-code events without a fault.
pub fn start_count() {
    with(|l| {
        l.counts = [0; 5];
        l.fault = None;
        l.fired = false;
    })
}
pub fn disarm() -> bool {
    with(|l| {
        l.fault = None;
        l.fired
    })
}
pub fn counts() -> [u32; 5] {
    with(|l| l.counts)
}

/// Counts one user-code event; panics with `Injected` if it is the armed one.
#[inline]
pub fn user_event(kind: FaultKind) {
    let fire = with(|l| {
        l.counts[kind as usize] += 1;
        match l.fault {
            Some((k, n)) if k == kind && !l.fired && l.counts[kind as usize] == n => {
                l.fired = true;
                true
            }
            _ => false,
        }
    });
    if fire {
        let n = with(|l| l.counts[kind as usize]);
        std::panic::panic_any(Injected(kind, n));
    }
}

pub fn take_touched() -> Vec<u32> {
    with(|l| std::mem::take(&mut l.touched))
}
pub fn take_events() -> Vec<Ev> {
    with(|l| std::mem::take(&mut l.events))
}
pub fn is_alive(id: u32) -> bool {
    with(|l| l.slots.get(id as usize).map(|s| s.alive).unwrap_or(false))
}
pub fn slot(id: u32) -> Option<Slot> {
    with(|l| l.slots.get(id as usize).copied())
}
pub fn n_ids() -> u32 {
    with(|l| l.slots.len() as u32 - 1)
}
pub fn live_ids() -> Vec<u32> {
    with(|l| {
        l.slots
            .iter()
            .enumerate()
            .filter(|(_, s)| s.alive)
            .map(|(i, _)| i as u32)
            .collect()
    })
}

#[cfg_attr(not(feature = "wide-elem"), repr(C))]
#[cfg_attr(feature = "wide-elem", repr(C, align(64)))]
pub struct Tracked {
    id: u32,
    val: u32,
    magic: u64,
    #[cfg(feature = "wide-elem")]
    _pad: [u64; 30],
}

pub enum Validity {
    Ok(u32),
    Inert,
    Tomb(u32),
    Garbage,
}

impl Tracked {
    pub fn new(val: u32) -> Self {
        Self::with_origin(val, 0)
    }

    fn with_origin(val: u32, origin: u32) -> Self {
        let id = with(|l| {
            let id = l.slots.len() as u32;
            l.slots.push(Slot { val, alive: true, drops: 0, origin });
            l.live += 1;
            if l.record_log {
                l.log.push((if origin == 0 { b'N' } else { b'C' }, val));
            }
            id
        });
        Tracked {
            id,
            val,
            magic: magic_for(id),
            #[cfg(feature = "wide-elem")]
            _pad: [0x5151_5151_5151_5151; 30],
        }
    }

    /// An element the ledger ignores (used for calibration only).
    pub fn inert() -> Self {
        Tracked {
            id: 0,
            val: 0,
            magic: INERT_MAGIC,
            #[cfg(feature = "wide-elem")]
            _pad: [0; 30],
        }
    }

    #[inline]
    pub fn validity(&self) -> Validity {
        if self.id == 0 && self.magic == INERT_MAGIC {
            Validity::Inert
        } else if self.id != 0 && self.magic == magic_for(self.id) {
            Validity::Ok(self.id)
        } else if self.id != 0 && self.magic == tomb_for(self.id) {
            Validity::Tomb(self.id)
        } else {
            Validity::Garbage
        }
    }

    /// Reads the identity without recording a touch (harness-side observation). Returns 0 for
    /// anything that is not a live-looking element and records the problem.
    pub fn peek_id(&self) -> Result<u32, String> {
        match self.validity() {
            Validity::Ok(id) => {
                if is_alive(id) {
                    Ok(id)
                } else {
                    Err(format!("reference to destroyed element id={id}"))
                }
            }
            Validity::Inert => Ok(0),
            Validity::Tomb(id) => Err(format!("reference to destroyed element (tomb) id={id}")),
            Validity::Garbage => Err(format!(
                "reference to non-element bytes id={:#x} val={:#x} magic={:#x}",
                self.id, self.val, self.magic
            )),
        }
    }
    pub fn raw_id(&self) -> u32 {
        self.id
    }
    pub fn val(&self) -> u32 {
        self.val
    }
    pub fn set_val(&mut self, v: u32) {
        self.val = v;
        let id = self.id;
        with(|l| {
            if let Some(s) = l.slots.get_mut(id as usize) {
                s.val = v;
            }
        });
    }

    fn touch(&self, what: &'static str) {
        with(|l| match self.validity() {
            Validity::Ok(id) => {
                let alive = l.slots.get(id as usize).map(|s| s.alive).unwrap_or(false);
                if !alive {
                    l.events.push(Ev::DeadTouched { id, what });
                }
                l.touched.push(id);
            }
            Validity::Inert => {}
            Validity::Tomb(id) => l.events.push(Ev::DeadTouched { id, what }),
            Validity::Garbage => {
                l.events.push(Ev::GarbageTouched { id: self.id, magic: self.magic, what })
            }
        })
    }
}

impl Drop for Tracked {
    fn drop(&mut self) {
        let counted = with(|l| match self.validity() {
            Validity::Inert => false,
            Validity::Ok(id) => {
                match l.slots.get_mut(id as usize) {
                    Some(s) => {
                        s.drops += 1;
                        if s.alive {
                            s.alive = false;
                            l.live -= 1;
                            if l.record_log {
                                let v = s.val;
                                l.log.push((b'D', v));
                            }
                        } else {
                            l.events.push(Ev::DoubleDrop { id });
                        }
                    }
                    None => l.events.push(Ev::GarbageDestroyed { id, magic: self.magic }),
                }
                true
            }
            Validity::Tomb(id) => {
                if let Some(s) = l.slots.get_mut(id as usize) {
                    s.drops += 1;
                }
                l.events.push(Ev::DoubleDrop { id });
                true
            }
            Validity::Garbage => {
                l.events.push(Ev::GarbageDestroyed { id: self.id, magic: self.magic });
                false
            }
        });
        if counted {
            self.magic = tomb_for(self.id);
            user_event(FaultKind::Drop);
        }
    }
}

impl Clone for Tracked {
    fn clone(&self) -> Self {
        self.touch("clone");
        user_event(FaultKind::Clone);
        match self.validity() {
            Validity::Inert => Tracked::inert(),
            Validity::Ok(id) => Tracked::with_origin(self.val, id),
            // cloning garbage: make a value that is recognisable as derived from garbage
            _ => Tracked::with_origin(self.val, u32::MAX),
        }
    }
}

impl PartialEq for Tracked {
    fn eq(&self, other: &Self) -> bool {
        self.touch("eq");
        other.touch("eq");
        user_event(FaultKind::Eq);
        self.val == other.val
    }
}
impl Eq for Tracked {}
impl PartialOrd for Tracked {
    fn partial_cmp(&self, other: &Self) -> Option<Ordering> {
        Some(self.cmp(other))
    }
}
impl Ord for Tracked {
    fn cmp(&self, other: &Self) -> Ordering {
        self.touch("cmp");
        other.touch("cmp");
        user_event(FaultKind::Eq);
        self.val.cmp(&other.val)
    }
}
impl Hash for Tracked {
    fn hash<H: Hasher>(&self, state: &mut H) {
        self.touch("hash");
        self.val.hash(state)
    }
}
impl fmt::Debug for Tracked {
    fn fmt(&self, f: &mut fmt::Formatter<'_>) -> fmt::Result {
        self.touch("debug");
        fmt::Debug::fmt(&self.val, f)
    }
}

/// Zero-sized element with thread-local create/destroy counters (C19).
pub struct Unit;

thread_local! {
    pub static UNIT_CREATED: std::cell::Cell<u64> = const { std::cell::Cell::new(0) };
    pub static UNIT_DROPPED: std::cell::Cell<u64> = const { std::cell::Cell::new(0) };
}
impl Unit {
    pub fn new() -> Self {
        UNIT_CREATED.with(|c| c.set(c.get() + 1));
        Unit
    }
    pub fn reset() {
        UNIT_CREATED.with(|c| c.set(0));
        UNIT_DROPPED.with(|c| c.set(0));
    }
    pub fn created() -> u64 {
        UNIT_CREATED.with(|c| c.get())
    }
    pub fn dropped() -> u64 {
        UNIT_DROPPED.with(|c| c.get())
    }
}
impl Default for Unit {
    fn default() -> Self {
        Unit::new()
    }
}
impl Drop for Unit {
    fn drop(&mut self) {
        UNIT_DROPPED.with(|c| c.set(c.get() + 1));
    }
}
impl Clone for Unit {
    fn clone(&self) -> Self {
        Unit::new()
    }
}
impl PartialEq for Unit {
    fn eq(&self, _: &Self) -> bool {
        true
    }
}
impl Eq for Unit {}
impl PartialOrd for Unit {
    fn partial_cmp(&self, other: &Self) -> Option<Ordering> {
        Some(self.cmp(other))
    }
}
impl Ord for Unit {
    fn cmp(&self, _: &Self) -> Ordering {
        Ordering::Equal
    }
}
impl Hash for Unit {
    fn hash<H: Hasher>(&self, _: &mut H) {}
}
impl fmt::Debug for Unit {
    fn fmt(&self, f: &mut fmt::Formatter<'_>) -> fmt::Result {
        f.write_str("U")
    }
}
