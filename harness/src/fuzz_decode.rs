//! Total decoders from arbitrary byte strings to cases (DESIGN 2.3/3): every input is a valid
//! case, so the fuzzer reaches the crate's logic instead of dying in input validation.

use crate::case::*;
use crate::io_engine::{Amt, Api, IoCase, IoOp};
use arbitrary::Unstructured;

const CAPS: [u32; 14] = [0, 1, 2, 3, 4, 5, 6, 7, 8, 9, 13, 16, 17, 33];

fn idx(u: &mut Unstructured) -> Idx {
    match u.int_in_range(0u8..=7).unwrap_or(0) {
        0 | 1 | 2 => Idx::Frac(u.arbitrary().unwrap_or(0)),
        3 | 4 => Idx::At(u.int_in_range(0u32..=9).unwrap_or(0)),
        5 => Idx::FromEnd(u.int_in_range(0u32..=3).unwrap_or(0)),
        6 => Idx::Past(u.int_in_range(0u32..=2).unwrap_or(0)),
        _ => Idx::Max(u.int_in_range(0u32..=1).unwrap_or(0)),
    }
}

fn bnd(u: &mut Unstructured) -> Bnd {
    match u.int_in_range(0u8..=4).unwrap_or(0) {
        0 => Bnd::Unb,
        1 | 2 => Bnd::Inc(idx(u)),
        _ => Bnd::Exc(idx(u)),
    }
}

fn range(u: &mut Unstructured) -> RangeSpec {
    let native = u.arbitrary().unwrap_or(true);
    if u.int_in_range(0u8..=9).unwrap_or(0) < 7 {
        // mostly valid: two ordered fractions
        let a: u16 = u.arbitrary().unwrap_or(0);
        let b: u16 = u.arbitrary().unwrap_or(0);
        let (a, b) = if a <= b { (a, b) } else { (b, a) };
        let a = (a as u32 * 60000 / 65536) as u16;
        let b = (b as u32 * 60000 / 65536) as u16;
        RangeSpec { start: Bnd::Inc(Idx::Frac(a)), end: Bnd::Exc(Idx::Frac(b)), native }
    } else {
        RangeSpec { start: bnd(u), end: bnd(u), native }
    }
}

fn script(u: &mut Unstructured, wide: bool) -> Vec<Step> {
    let n = u.int_in_range(0usize..=8).unwrap_or(0);
    (0..n)
        .map(|_| match u.int_in_range(0u8..=if wide { 20 } else { 4 }).unwrap_or(0) {
            0 | 1 => Step::Next,
            2 | 3 => Step::NextBack,
            4 => Step::Dbg,
            5 => Step::Fork,
            6 => Step::Nth(u.int_in_range(0u16..=4).unwrap_or(0)),
            7 => Step::NthBack(u.int_in_range(0u16..=4).unwrap_or(0)),
            8 => Step::Count,
            9 => Step::Last,
            10 => Step::Fold,
            11 => Step::Skip(u.int_in_range(0u16..=3).unwrap_or(0)),
            12 => Step::StepBy(u.int_in_range(0u16..=2).unwrap_or(0)),
            13 => Step::RFold,
            14 => Step::RevLast,
            15 => Step::Search,
            16 => Step::FindMid,
            17 => Step::RFindMid,
            20 => Step::Via(u.int_in_range(0u8..=7).unwrap_or(0)),
            18 => Step::PanicSearch(u.int_in_range(0u16..=5).unwrap_or(0), u.arbitrary().unwrap_or(false)),
            _ => Step::RevCollect,
        })
        .collect()
}

fn hint(u: &mut Unstructured) -> Hint {
    match u.int_in_range(0u8..=4).unwrap_or(0) {
        0 => Hint::Exact,
        1 => Hint::Low,
        2 => Hint::Zero,
        3 => Hint::Unbounded,
        _ => Hint::Over(u.int_in_range(0u32..=80).unwrap_or(0)),
    }
}

fn op(u: &mut Unstructured) -> Op {
    let cnt = |u: &mut Unstructured| u.int_in_range(0u32..=40).unwrap_or(0);
    match u.int_in_range(0u8..=50).unwrap_or(0) {
        0 | 1 | 2 => Op::PushBack,
        3 | 4 => Op::PushFront,
        5 => Op::TryPushBack,
        6 => Op::TryPushFront,
        7 | 8 => Op::PopBack,
        9 | 10 => Op::PopFront,
        11 | 12 => Op::Remove(idx(u)),
        13 => Op::Swap(idx(u), idx(u)),
        14 => Op::SwapRemoveBack(idx(u)),
        15 => Op::SwapRemoveFront(idx(u)),
        16 => Op::TruncateBack(idx(u)),
        17 => Op::TruncateFront(idx(u)),
        18 => Op::Clear,
        19 => Op::Fill,
        20 => Op::FillWith,
        21 => Op::FillSpare,
        22 => Op::FillSpareWith,
        23 | 24 => Op::Extend(cnt(u), hint(u)),
        25 | 26 => Op::ExtendFromSlice(cnt(u)),
        27 => Op::MakeContiguous,
        28 | 29 | 30 => Op::Drain(range(u), script(u, true), End::Drop),
        31 => Op::Drain(range(u), script(u, false), End::Forget),
        32 => Op::CloneFrom(u.arbitrary::<u16>().unwrap_or(0) as u32, u.arbitrary::<u16>().unwrap_or(0) as u32),
        33 => Op::Set(ALL_ACC[u.int_in_range(0usize..=ALL_ACC.len() - 1).unwrap_or(0)], idx(u)),
        34 => Op::Mutate(ALL_ACC[u.int_in_range(0usize..=ALL_ACC.len() - 1).unwrap_or(0)], idx(u)),
        35 => Op::Read(idx(u)),
        36 => Op::Views,
        37 | 38 => {
            let k = match u.int_in_range(0u8..=6).unwrap_or(0) {
                0 => IterKind::Iter,
                1 => IterKind::RefIntoIter,
                2 => IterKind::IterMut,
                3 | 4 => IterKind::Range(range(u)),
                5 => IterKind::RangeMut(range(u)),
                _ => IterKind::DefaultIter,
            };
            Op::IterScript(k, script(u, true))
        }
        39 => Op::IntoIter(script(u, true)),
        40 => Op::CloneBuf(u.arbitrary().unwrap_or(false)),
        41 => Op::ToVec,
        42 => Op::Cmp(u.arbitrary::<u16>().unwrap_or(0) as u32, u.arbitrary::<u16>().unwrap_or(0) as u32, if u.arbitrary().unwrap_or(false) { Some(idx(u)) } else { None }),
        43 => Op::EqSlice(if u.arbitrary().unwrap_or(false) { Some(idx(u)) } else { None }),
        44 => Op::FromArray(u.int_in_range(0u32..=19).unwrap_or(0)),
        45 => Op::FromIter(cnt(u), hint(u)),
        46 => Op::MoveBuf,
        49 => Op::ExtendPairs(cnt(u), hint(u)),
        50 => Op::Unzip(cnt(u), hint(u)),
        47 => Op::CmpCap(u.int_in_range(0u32..=8).unwrap_or(0), u.arbitrary::<u16>().unwrap_or(0) as u32, u.arbitrary::<u16>().unwrap_or(0) as u32, if u.arbitrary().unwrap_or(false) { Some(idx(u)) } else { None }),
        _ => Op::DropBuf,
    }
}

pub fn decode_case(data: &[u8]) -> Case {
    let mut u = Unstructured::new(data);
    let n = CAPS[u.int_in_range(0usize..=CAPS.len() - 1).unwrap_or(0)];
    let s: u16 = u.arbitrary().unwrap_or(0);
    let l: u16 = u.arbitrary().unwrap_or(0);
    let route = ALL_ROUTES[u.int_in_range(0usize..=3).unwrap_or(0)];
    let fill = ALL_FILLS[u.int_in_range(0usize..=ALL_FILLS.len() - 1).unwrap_or(0)];
    let ctor = u.int_in_range(0u8..=2).unwrap_or(0);
    let salt: u32 = u.arbitrary().unwrap_or(0);
    let mut ops = Vec::new();
    while !u.is_empty() && ops.len() < 64 {
        ops.push(op(&mut u));
    }
    Case {
        n,
        ctor,
        route,
        start: if n == 0 { 0 } else { (s as u32 * n) >> 16 },
        len: (l as u32 * (n + 1)) >> 16,
        fill,
        fault: None,
        fault_pick: None,
        ops,
        salt,
        unwinding: salt % 8 == 0,
        vals: if (salt >> 3) % 3 == 0 { ((salt >> 5) % 5) as u8 } else { 0 },
    }
}

pub fn decode_io_case(data: &[u8]) -> IoCase {
    let mut u = Unstructured::new(data);
    let n = CAPS[u.int_in_range(0usize..=CAPS.len() - 1).unwrap_or(0)];
    let s: u16 = u.arbitrary().unwrap_or(0);
    let l: u16 = u.arbitrary().unwrap_or(0);
    let route = u.int_in_range(0u8..=2).unwrap_or(0);
    let pattern = [0u8, 0xFF, 0x5A][u.int_in_range(0usize..=2).unwrap_or(0)];
    let mut ops = Vec::new();
    let amt = |u: &mut Unstructured| match u.int_in_range(0u8..=5).unwrap_or(0) {
        0 | 1 | 2 => Amt::Frac(u.arbitrary().unwrap_or(0)),
        3 => Amt::At(u.int_in_range(0u32..=11).unwrap_or(0)),
        4 => Amt::Past(u.int_in_range(0u32..=3).unwrap_or(0)),
        _ => Amt::Max,
    };
    while !u.is_empty() && ops.len() < 64 {
        let sz = u.int_in_range(0u32..=(2 * n + 2)).unwrap_or(0);
        ops.push(match u.int_in_range(0u8..=19).unwrap_or(0) {
            0 | 1 | 2 | 3 => IoOp::Write(sz),
            4 => IoOp::WriteAll(sz),
            5 => IoOp::ExtendRef(sz),
            6 | 7 | 8 => IoOp::Read(sz),
            9 => IoOp::ReadExact(sz),
            10 => IoOp::FillBuf,
            11 => IoOp::Consume(amt(&mut u)),
            12 => IoOp::FillBufConsume(amt(&mut u)),
            13 => IoOp::ReadUntil(amt(&mut u)),
            15 | 16 => IoOp::ReadVectored(sz, u.int_in_range(0u32..=(n + 2)).unwrap_or(0), u.int_in_range(0u32..=(n + 2)).unwrap_or(0)),
            17 => IoOp::WriteVectored(sz, u.int_in_range(0u32..=(n + 2)).unwrap_or(0), u.int_in_range(0u32..=(n + 2)).unwrap_or(0)),
            18 => IoOp::Bytes(sz),
            19 => IoOp::TakeToEnd(sz),
            _ => IoOp::ReadToEnd,
        });
    }
    IoCase { n, start: if n == 0 { 0 } else { (s as u32 * n) >> 16 }, len: (l as u32 * (n + 1)) >> 16, route, pattern, api: Api::Std, ops }
}
