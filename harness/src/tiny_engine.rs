//! Elements that are one or two bytes wide but are NOT plain data: they are `Clone` without being `Copy`, and they
//! count their constructor, clone and destructor runs per value.  A "byte buffer" fast path that is gated on
//! `size_of::<T>() == 1` (copying bits instead of calling `clone`, skipping destructors) is invisible to `u8` and to
//! the 16-byte tracked element; here it shows as a clone that never ran or a destructor that ran twice.
//! (C12: clones are element-wise clones with independent ownership; C03: every element destroyed exactly once.)

use circular_buffer::CircularBuffer;
use serde::{Deserialize, Serialize};
use std::cell::RefCell;
use std::collections::VecDeque;

thread_local! {
    /// per value: (live instances, clones made of it, destructor runs)
    static BOOK: RefCell<Book> = RefCell::new(Book::default());
}

#[derive(Default)]
struct Book(std::collections::HashMap<usize, (i64, u64, u64)>);
impl std::ops::Index<usize> for Book {
    type Output = (i64, u64, u64);
    fn index(&self, i: usize) -> &(i64, u64, u64) {
        self.0.get(&i).unwrap_or(&(0, 0, 0))
    }
}
impl std::ops::IndexMut<usize> for Book {
    fn index_mut(&mut self, i: usize) -> &mut (i64, u64, u64) {
        self.0.entry(i).or_insert((0, 0, 0))
    }
}

fn book<R>(f: impl FnOnce(&mut Book) -> R) -> R {
    BOOK.with(|b| f(&mut b.borrow_mut()))
}

pub trait Small: Clone + PartialEq + std::fmt::Debug + 'static {
    const NAME: &'static str;
    fn make(v: u16) -> Self;
    fn val(&self) -> u16;
    /// the value an element made from `v` reports (values are truncated to the width of the element)
    fn norm(v: u16) -> u16;
}

macro_rules! small {
    ($name:ident, $inner:ty, $label:expr) => {
        #[derive(Debug, PartialEq)]
        pub struct $name($inner);
        impl Small for $name {
            const NAME: &'static str = $label;
            fn make(v: u16) -> Self {
                book(|b| b[(v as $inner) as usize].0 += 1);
                $name(v as $inner)
            }
            fn val(&self) -> u16 {
                self.0 as u16
            }
            fn norm(v: u16) -> u16 {
                (v as $inner) as u16
            }
        }
        impl Clone for $name {
            fn clone(&self) -> Self {
                book(|b| {
                    b[self.0 as usize].0 += 1;
                    b[self.0 as usize].1 += 1;
                });
                $name(self.0)
            }
        }
        impl Drop for $name {
            fn drop(&mut self) {
                book(|b| {
                    b[self.0 as usize].0 -= 1;
                    b[self.0 as usize].2 += 1;
                });
            }
        }
    };
}
small!(One, u8, "one-byte non-Copy element");
small!(Two, u16, "two-byte non-Copy element");

#[derive(Debug, Clone, Copy, PartialEq, Eq, Hash, Serialize, Deserialize)]
pub enum TOp {
    ToVec,
    CloneBuf,
    CloneFrom(u8, u8),
    ExtendFromSlice(u8),
    Fill,
    FillSpare,
    FromSliceIter(u8),
    IntoIterCollect,
    IntoIterClone,
    IterCloned,
    Drain(u8, u8),
    Truncate(u8),
    PushPop,
    EqAndHash,
}

#[derive(Debug, Clone, PartialEq, Eq, Hash, Serialize, Deserialize)]
pub struct TCase {
    pub ty: u8,
    pub n: u8,
    pub start: u8,
    pub len: u8,
    pub ops: Vec<TOp>,
}

fn build<const N: usize, E: Small>(start: usize, len: usize, next: &mut u16) -> (CircularBuffer<N, E>, VecDeque<u16>) {
    let mut b = CircularBuffer::<N, E>::new();
    let mut m = VecDeque::new();
    if N > 0 {
        for _ in 0..start % N {
            b.push_back(E::make(0));
            b.pop_front();
        }
        for _ in 0..len.min(N) {
            *next += 1;
            b.push_back(E::make(*next));
            m.push_back(E::norm(*next));
        }
    }
    (b, m)
}

/// live instances per value must be exactly what the model says is held somewhere
fn balance(expected: &[(u16, i64)], what: &str) -> Result<(), String> {
    book(|b| {
        let mut want: std::collections::HashMap<usize, i64> = std::collections::HashMap::new();
        for (x, c) in expected {
            *want.entry(*x as usize).or_insert(0) += *c;
        }
        let mut keys: Vec<usize> = b.0.keys().copied().chain(want.keys().copied()).collect();
        keys.sort_unstable();
        keys.dedup();
        for v in keys {
            let e = b[v];
            let w = want.get(&v).copied().unwrap_or(0);
            if e.0 != w {
                return Err(format!("{what}: {} instance(s) of value {v} are alive, expected {w} (clones of it so far: {}, destructor runs: {})", e.0, e.1, e.2));
            }
        }
        Ok(())
    })
}

fn run_n<const N: usize, E: Small>(c: &TCase) -> Result<bool, String> {
    book(|b| b.0.clear());
    let mut next = 0u16;
    let (mut b, mut m) = build::<N, E>(c.start as usize, c.len as usize, &mut next);
    book(|bk| {
        bk.0.remove(&0);
    });
    let held = |m: &VecDeque<u16>| -> Vec<(u16, i64)> { m.iter().map(|v| (*v, 1)).collect() };
    balance(&held(&m), "setup")?;
    for (i, op) in c.ops.iter().enumerate() {
        let what = format!("op #{i} {op:?} on {} ({}), capacity {N}", E::NAME, c.len);
        let clones_before: u64 = book(|bk| bk.0.values().map(|e| e.1).sum());
        match *op {
            TOp::ToVec => {
                let v = b.to_vec();
                if !v.iter().map(|e| e.val()).eq(m.iter().copied()) {
                    return Err(format!("{what}: to_vec() holds other values than the buffer"));
                }
                let made: u64 = book(|bk| bk.0.values().map(|e| e.1).sum::<u64>()) - clones_before;
                if made != m.len() as u64 {
                    return Err(format!("{what}: to_vec() of {} elements ran clone() {made} times", m.len()));
                }
                let mut exp = held(&m);
                exp.extend(held(&m));
                balance(&exp, &what)?;
                drop(v);
            }
            TOp::CloneBuf => {
                let c2 = b.clone();
                if !c2.iter().map(|e| e.val()).eq(m.iter().copied()) {
                    return Err(format!("{what}: the clone holds other values"));
                }
                let made: u64 = book(|bk| bk.0.values().map(|e| e.1).sum::<u64>()) - clones_before;
                if made != m.len() as u64 {
                    return Err(format!("{what}: clone() of a buffer of {} elements ran the elements' clone() {made} times", m.len()));
                }
                let mut exp = held(&m);
                exp.extend(held(&m));
                balance(&exp, &what)?;
                drop(c2);
            }
            TOp::CloneFrom(s, l) => {
                let mut nx = 30000u16;
                let (src, sm) = build::<N, E>(s as usize, l as usize, &mut nx);
                b.clone_from(&src);
                m = sm.clone();
                if !b.iter().map(|e| e.val()).eq(m.iter().copied()) || !src.iter().map(|e| e.val()).eq(sm.iter().copied()) {
                    return Err(format!("{what}: clone_from gave other values or changed its source"));
                }
                let mut exp = held(&m);
                exp.extend(held(&sm));
                balance(&exp, &what)?;
                drop(src);
            }
            TOp::ExtendFromSlice(k) => {
                let src: Vec<E> = (0..k as u16).map(|j| E::make(40000 + j)).collect();
                b.extend_from_slice(&src);
                for e in &src {
                    m.push_back(e.val());
                }
                while m.len() > N {
                    m.pop_front();
                }
                let mut exp = held(&m);
                exp.extend(src.iter().map(|e| (e.val(), 1)));
                balance(&exp, &what)?;
                drop(src);
            }
            TOp::Fill | TOp::FillSpare => {
                next += 1;
                let v = E::make(next);
                if matches!(op, TOp::Fill) {
                    b.fill(v);
                    m.clear();
                } else {
                    b.fill_spare(v);
                }
                while m.len() < N {
                    m.push_back(E::norm(next));
                }
                if N == 0 {
                    m.clear();
                }
            }
            TOp::FromSliceIter(k) => {
                let src: Vec<E> = (0..k as u16).map(|j| E::make(50000 + j)).collect();
                let nb: CircularBuffer<N, E> = src.iter().cloned().collect();
                let keep = (k as usize).min(N);
                if !nb.iter().map(|e| e.val()).eq(src[k as usize - keep..].iter().map(|e| e.val())) {
                    return Err(format!("{what}: from_iter kept other values than the last {keep}"));
                }
                let mut exp = held(&m);
                exp.extend(src.iter().map(|e| (e.val(), 1)));
                exp.extend(src[k as usize - keep..].iter().map(|e| (e.val(), 1)));
                balance(&exp, &what)?;
                drop(nb);
                drop(src);
            }
            TOp::IntoIterCollect => {
                let taken = std::mem::replace(&mut b, CircularBuffer::new());
                let v: Vec<E> = taken.into_iter().collect();
                if !v.iter().map(|e| e.val()).eq(m.iter().copied()) {
                    return Err(format!("{what}: into_iter().collect() gave other values"));
                }
                let made: u64 = book(|bk| bk.0.values().map(|e| e.1).sum::<u64>()) - clones_before;
                if made != 0 {
                    return Err(format!("{what}: moving the elements out ran clone() {made} times"));
                }
                balance(&held(&m), &what)?;
                drop(v);
                m.clear();
            }
            TOp::IntoIterClone => {
                let taken = std::mem::replace(&mut b, CircularBuffer::new());
                let mut it = taken.into_iter();
                let first = it.next();
                let it2 = it.clone();
                let rest: Vec<u16> = it2.map(|e| e.val()).collect();
                if !rest.iter().copied().eq(m.iter().copied().skip(1)) {
                    return Err(format!("{what}: the cloned owning iterator yields other values"));
                }
                drop(first);
                drop(it);
                m.clear();
            }
            TOp::IterCloned => {
                let v: Vec<E> = b.iter().cloned().collect();
                let w: Vec<E> = b.range(..).rev().cloned().collect();
                let mut exp = held(&m);
                exp.extend(held(&m));
                exp.extend(held(&m));
                balance(&exp, &what)?;
                drop((v, w));
            }
            TOp::Drain(x, y) => {
                let len = m.len();
                let (mut p, mut q) = ((x as usize * (len + 1)) >> 8, (y as usize * (len + 1)) >> 8);
                if p > q {
                    std::mem::swap(&mut p, &mut q);
                }
                let got: Vec<E> = b.drain(p..q).take(1).collect();
                let want: Vec<u16> = m.drain(p..q).take(1).collect();
                if !got.iter().map(|e| e.val()).eq(want.iter().copied()) {
                    return Err(format!("{what}: drain yielded other values"));
                }
                let mut exp = held(&m);
                exp.extend(want.iter().map(|v| (*v, 1)));
                balance(&exp, &what)?;
            }
            TOp::Truncate(k) => {
                let len = m.len();
                let p = (k as usize * (len + 1)) >> 8;
                if k % 2 == 0 {
                    b.truncate_back(p);
                    m.truncate(p);
                } else {
                    b.truncate_front(p);
                    let cut = len - p.min(len);
                    m.drain(..cut);
                }
            }
            TOp::PushPop => {
                next += 1;
                let ev = b.push_back(E::make(next));
                let want = if N == 0 { Some(E::norm(next)) } else if m.len() == N { m.pop_front() } else { None };
                if N > 0 {
                    m.push_back(E::norm(next));
                }
                if ev.as_ref().map(|e| e.val()) != want {
                    return Err(format!("{what}: push_back returned {:?}, expected {:?}", ev.map(|e| e.val()), want));
                }
                drop(ev);
                let got = b.pop_front();
                if got.as_ref().map(|e| e.val()) != m.pop_front() {
                    return Err(format!("{what}: pop_front returned the wrong value"));
                }
            }
            TOp::EqAndHash => {
                let c2: CircularBuffer<N, E> = m.iter().map(|v| E::make(*v)).collect();
                if c2 != b || b != c2.iter().map(|e| E::make(e.val())).collect::<Vec<E>>()[..] {
                    return Err(format!("{what}: a buffer rebuilt from the same values compares unequal"));
                }
                let made: u64 = book(|bk| bk.0.values().map(|e| e.1).sum::<u64>()) - clones_before;
                if made != 0 {
                    return Err(format!("{what}: comparing ran clone() {made} times"));
                }
            }
        }
        if !b.iter().map(|e| e.val()).eq(m.iter().copied()) || b.len() != m.len() {
            return Err(format!("{what}: contents {:?}, expected {:?}", b.iter().map(|e| e.val()).collect::<Vec<_>>(), m));
        }
        balance(&held(&m), &format!("after {what}"))?;
    }
    drop(b);
    balance(&[], "after dropping the buffer")?;
    Ok(c.len > 0)
}

fn run_ty<E: Small>(c: &TCase) -> Result<bool, String> {
    macro_rules! table {
        ($($n:literal),*) => {
            match c.n {
                $($n => run_n::<$n, E>(c),)*
                n => Err(format!("capacity {n} not in table")),
            }
        };
    }
    table!(0, 1, 2, 3, 4, 5, 6, 7, 8, 16, 33, 64, 130)
}

pub const TCAPS: [u8; 13] = [0, 1, 2, 3, 4, 5, 6, 7, 8, 16, 33, 64, 130];

pub fn run_tcase(c: &TCase) -> Result<bool, String> {
    match c.ty % 2 {
        0 => run_ty::<One>(c),
        _ => run_ty::<Two>(c),
    }
}

pub fn all_ops(n: usize) -> Vec<TOp> {
    let mut v = vec![TOp::ToVec, TOp::CloneBuf, TOp::Fill, TOp::FillSpare, TOp::IntoIterCollect, TOp::IntoIterClone, TOp::IterCloned, TOp::PushPop, TOp::EqAndHash];
    for k in [0u8, 1, 2, n as u8 / 2, n as u8, n as u8 + 1] {
        v.push(TOp::ExtendFromSlice(k));
        v.push(TOp::FromSliceIter(k));
    }
    for s in [0u8, 1, n as u8 / 2] {
        for l in [0u8, 1, n as u8 / 2, n as u8] {
            v.push(TOp::CloneFrom(s, l));
        }
    }
    for x in [0u8, 70, 140, 255] {
        v.push(TOp::Truncate(x));
        for y in [0u8, 128, 255] {
            v.push(TOp::Drain(x, y));
        }
    }
    v
}

/// (evaluations, distinct non-trivial, samples, first failure)
pub fn run(thorough: bool) -> (u64, u64, Vec<String>, Option<(TCase, String)>) {
    let mut cases = Vec::new();
    for ty in 0..2u8 {
        for n in TCAPS {
            let all = n <= if thorough { 16 } else { 8 };
            let starts: Vec<u8> = if all { (0..n.max(1)).collect() } else { vec![0, 1, n / 2, n - 1] };
            let lens: Vec<u8> = if all { (0..=n).collect() } else { vec![0, 1, n / 2, n - 1, n] };
            for s in &starts {
                for l in &lens {
                    for op in all_ops(n as usize) {
                        cases.push(TCase { ty, n, start: *s, len: *l, ops: vec![op, TOp::PushPop] });
                    }
                }
            }
        }
    }
    let mut nontrivial = 0u64;
    for c in &cases {
        let r = match std::panic::catch_unwind(std::panic::AssertUnwindSafe(|| run_tcase(c))) {
            Ok(r) => r,
            Err(p) => Err(format!("unexpected panic: {}", crate::interp::panic_msg(&p))),
        };
        match r {
            Ok(nt) => nontrivial += nt as u64,
            Err(m) => return (cases.len() as u64, nontrivial, Vec::new(), Some((c.clone(), m))),
        }
    }
    let samples = cases.iter().step_by(cases.len() / 5 + 1).map(|c| format!("{c:?}")).collect();
    (cases.len() as u64, nontrivial, samples, None)
}
