pub mod case;
pub mod deq;
pub mod interp;
mod interp_ops;
mod interp_views;
mod interp_iters;
pub mod model;
pub mod tracked;
