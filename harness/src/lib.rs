#![cfg_attr(feature = "unstable", feature(exact_size_is_empty))]
//! Verification harness for rust-circular-buffer (see /verif/DESIGN.md).
//! Everything except `alloc_engine` needs the crate's default (`std`) feature set.
pub mod alloc_engine;
#[cfg(any(feature = "eio", feature = "eio-async"))]
pub mod eio_trace;
pub mod watch;

#[cfg(feature = "cb-std")]
pub mod big_engine;
#[cfg(all(feature = "cb-std", target_pointer_width = "64"))]
pub mod huge_engine;
#[cfg(feature = "cb-std")]
pub mod case;
#[cfg(feature = "cb-std")]
pub mod cmp_engine;
#[cfg(feature = "cb-std")]
pub mod copy_engine;
#[cfg(feature = "cb-std")]
pub mod deq;
#[cfg(feature = "cb-std")]
pub mod fuzz_decode;
#[cfg(feature = "cb-std")]
pub mod gen_enum;
#[cfg(feature = "cb-std")]
pub mod gen_prop;
#[cfg(feature = "cb-std")]
pub mod interp;
#[cfg(feature = "cb-std")]
mod interp_iters;
#[cfg(feature = "cb-std")]
mod interp_ops;
#[cfg(feature = "cb-std")]
mod interp_views;
#[cfg(feature = "cb-std")]
pub mod io_engine;
#[cfg(feature = "cb-std")]
pub mod model;
#[cfg(feature = "cb-std")]
pub mod plain_engine;
#[cfg(feature = "cb-std")]
pub mod props;
#[cfg(feature = "cb-std")]
pub mod reloc_engine;
#[cfg(feature = "cb-std")]
pub mod runner;
#[cfg(feature = "cb-std")]
pub mod tiny_engine;
#[cfg(feature = "cb-std")]
pub mod tracked;
#[cfg(feature = "cb-std")]
pub mod zfull_engine;
#[cfg(feature = "cb-std")]
pub mod zst_engine;
