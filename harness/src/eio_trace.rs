//! embedded-io / embedded-io-async behaviour recorded as a trace (C16, configurations without the
//! crate's `std` feature).  With `std` off there are no std::io impls to compare with in the same
//! process, so the comparison is made across builds: the same generated histories run in a build
//! with `std` (where `io_engine` ties the embedded impls to the std::io impls call by call) and in a
//! build without it; every returned count, every delivered byte, every `fill_buf` chunk, the contents
//! and the physical layout after every call go into a digest, and the digests must be identical.
//! The module only uses the crate's core API, so it compiles in both configurations.  A byte-queue
//! model is checked as well, so a defect shows up even when both builds share it.

use circular_buffer::CircularBuffer;
#[cfg(feature = "eio")]
use embedded_io::ReadExactError;
#[cfg(all(feature = "eio-async", not(feature = "eio")))]
use embedded_io_async::ReadExactError;
use serde::{Deserialize, Serialize};

#[derive(Debug, Clone, Copy, PartialEq, Eq, Hash, Serialize, Deserialize)]
pub enum TApi {
    Eio,
    EioAsync,
}

#[derive(Debug, Clone, PartialEq, Eq, Hash, Serialize, Deserialize)]
pub enum TOp {
    Write(u32),
    Read(u32),
    FillBuf,
    Consume(u32),
    /// fill_buf, then consume this fraction (in 1/65536) of what it returned
    FillBufConsume(u16),
    Flush,
    ReadExact(u32),
    WriteAll(u32),
}

#[derive(Debug, Clone, PartialEq, Eq, Hash, Serialize, Deserialize)]
pub struct TCase {
    pub n: u32,
    pub start: u32,
    pub len: u32,
    pub api: TApi,
    pub ops: Vec<TOp>,
}

pub fn api_available(api: TApi) -> bool {
    match api {
        TApi::Eio => cfg!(feature = "eio"),
        TApi::EioAsync => cfg!(feature = "eio-async"),
    }
}

#[cfg(feature = "eio-async")]
fn poll_once<F: std::future::Future>(f: F) -> Option<F::Output> {
    let mut f = std::pin::pin!(f);
    let mut cx = std::task::Context::from_waker(std::task::Waker::noop());
    match f.as_mut().poll(&mut cx) {
        std::task::Poll::Ready(v) => Some(v),
        std::task::Poll::Pending => None,
    }
}

fn fnv(h: &mut u64, v: u64) {
    for b in v.to_le_bytes() {
        *h ^= b as u64;
        *h = h.wrapping_mul(0x100000001b3);
    }
}

/// Result of one case: (trace digest, non-trivial?) or a violation of the byte-queue model.
#[allow(unused_variables, unused_mut)]
fn run_n<const N: usize>(c: &TCase, trace: &mut Vec<String>, want_trace: bool) -> Result<(u64, bool), String> {
    let mut buf = CircularBuffer::<N, u8>::new();
    let mut next = 1u8;
    let mut pay = move || {
        let v = next;
        next = if next >= 250 { 1 } else { next + 1 };
        v
    };
    if N > 0 {
        for _ in 0..(c.start as usize % N) {
            buf.push_back(0);
            buf.pop_front();
        }
        for _ in 0..(c.len as usize).min(N) {
            buf.push_back(pay());
        }
    }
    let mut model: Vec<u8> = buf.iter().copied().collect();
    let mut h = 0xcbf29ce484222325u64;
    let mut nontrivial = false;
    let api = c.api;
    macro_rules! call {
        ($sync:expr, $asy:expr, $what:expr) => {
            match api {
                #[cfg(feature = "eio")]
                TApi::Eio => $sync,
                #[cfg(feature = "eio-async")]
                TApi::EioAsync => match poll_once($asy) {
                    Some(r) => r,
                    None => return Err(format!("{} returned Pending", $what)),
                },
                #[allow(unreachable_patterns)]
                _ => return Err("api not compiled in".into()),
            }
        };
    }
    for (i, op) in c.ops.iter().enumerate() {
        let len = model.len();
        let ctx = |m: String| format!("op #{i} {op:?}: {m}");
        let mut rec: Vec<u64> = Vec::new();
        match op {
            TOp::Write(m) | TOp::WriteAll(m) => {
                let src: Vec<u8> = (0..*m).map(|_| pay()).collect();
                if matches!(op, TOp::Write(_)) {
                    let r = call!(embedded_io::Write::write(&mut buf, &src), embedded_io_async::Write::write(&mut buf, &src), "write");
                    match r {
                        Ok(k) if k == src.len() => rec.push(k as u64),
                        Ok(k) => return Err(ctx(format!("reported {k} bytes written, input had {}", src.len()))),
                        Err(e) => return Err(ctx(format!("returned an error: {e:?}"))),
                    }
                } else {
                    let r = call!(embedded_io::Write::write_all(&mut buf, &src), embedded_io_async::Write::write_all(&mut buf, &src), "write_all");
                    if let Err(e) = r {
                        return Err(ctx(format!("returned an error: {e:?}")));
                    }
                }
                model.extend_from_slice(&src);
                if model.len() > N {
                    let cut = model.len() - N;
                    model.drain(..cut);
                    nontrivial = true;
                }
            }
            TOp::Flush => {
                let r = call!(embedded_io::Write::flush(&mut buf), embedded_io_async::Write::flush(&mut buf), "flush");
                if let Err(e) = r {
                    return Err(ctx(format!("flush returned an error: {e:?}")));
                }
            }
            TOp::Read(d) => {
                let d = *d as usize;
                let mut dst = vec![0xA5u8; d];
                let r = call!(embedded_io::Read::read(&mut buf, &mut dst), embedded_io_async::Read::read(&mut buf, &mut dst), "read");
                let k = match r {
                    Ok(k) => k,
                    Err(e) => return Err(ctx(format!("read returned an error: {e:?}"))),
                };
                let want = d.min(len);
                if k != want || dst[..k] != model[..k] || dst[k..].iter().any(|b| *b != 0xA5) {
                    return Err(ctx(format!("read returned {k} and delivered {:?}; buffered {:?}, destination length {d}", dst, model)));
                }
                rec.push(k as u64);
                rec.extend(dst.iter().map(|b| *b as u64));
                if k > 0 && k < len {
                    nontrivial = true;
                }
                model.drain(..k);
            }
            TOp::ReadExact(d) => {
                let d = *d as usize;
                let mut dst = vec![0xA5u8; d];
                let r = call!(embedded_io::Read::read_exact(&mut buf, &mut dst), embedded_io_async::Read::read_exact(&mut buf, &mut dst), "read_exact");
                match r {
                    Ok(()) => {
                        if d > len || dst[..] != model[..d] {
                            return Err(ctx(format!("read_exact succeeded and delivered {:?}; buffered {:?}", dst, model)));
                        }
                        rec.push(1);
                        rec.extend(dst.iter().map(|b| *b as u64));
                        model.drain(..d);
                    }
                    Err(ReadExactError::UnexpectedEof) => {
                        if d <= len {
                            return Err(ctx(format!("read_exact reported EOF with {len} bytes buffered")));
                        }
                        rec.push(2);
                        model.clear();
                    }
                    Err(e) => return Err(ctx(format!("read_exact returned {e:?}"))),
                }
            }
            TOp::FillBuf | TOp::FillBufConsume(_) => {
                let p: Vec<u8> = {
                    let r = call!(
                        embedded_io::BufRead::fill_buf(&mut buf).map(|s| s.to_vec()),
                        fill_async(&mut buf),
                        "fill_buf"
                    );
                    match r {
                        Ok(p) => p,
                        Err(e) => return Err(ctx(format!("fill_buf returned an error: {e:?}"))),
                    }
                };
                if p.len() > len || p[..] != model[..p.len()] || p.is_empty() != model.is_empty() {
                    return Err(ctx(format!("fill_buf returned {:?} with {:?} buffered", p, model)));
                }
                rec.push(p.len() as u64);
                rec.extend(p.iter().map(|b| *b as u64));
                if p.len() < len {
                    nontrivial = true;
                }
                if let TOp::FillBufConsume(f) = op {
                    let k = ((*f as usize) * (p.len() + 1)) >> 16;
                    call_consume(&mut buf, api, k)?;
                    model.drain(..k);
                }
            }
            TOp::Consume(k) => {
                let k = if *k == u32::MAX { usize::MAX } else { *k as usize };
                let r = std::panic::catch_unwind(std::panic::AssertUnwindSafe(|| call_consume(&mut buf, api, k)));
                match r {
                    Ok(r) => r?,
                    Err(_) => return Err(ctx("consume panicked".into())),
                }
                if k > len {
                    nontrivial = true;
                }
                model.drain(..k.min(len));
            }
        }
        // state after the call: contents, the way they are split, and where the front element lives
        let got: Vec<u8> = buf.iter().copied().collect();
        if got != model || buf.len() != model.len() {
            return Err(ctx(format!("contents afterwards {:?}, expected {:?}", got, model)));
        }
        let (s1, s2) = buf.as_slices();
        rec.push(s1.len() as u64);
        rec.push(s2.len() as u64);
        let base = &buf as *const _ as usize;
        rec.push(buf.front().map(|r| r as *const u8 as usize - base).unwrap_or(usize::MAX) as u64);
        rec.extend(got.iter().map(|b| *b as u64));
        fnv(&mut h, i as u64);
        for v in &rec {
            fnv(&mut h, *v);
        }
        if want_trace {
            trace.push(format!("op #{i} {op:?} -> {rec:?}"));
        }
    }
    Ok((h, nontrivial))
}

#[allow(unused_variables)]
fn call_consume<const N: usize>(buf: &mut CircularBuffer<N, u8>, api: TApi, k: usize) -> Result<(), String> {
    match api {
        #[cfg(feature = "eio")]
        TApi::Eio => embedded_io::BufRead::consume(buf, k),
        #[cfg(feature = "eio-async")]
        TApi::EioAsync => embedded_io_async::BufRead::consume(buf, k),
        #[allow(unreachable_patterns)]
        _ => return Err("api not compiled in".into()),
    }
    Ok(())
}

#[cfg(feature = "eio-async")]
async fn fill_async<const N: usize>(buf: &mut CircularBuffer<N, u8>) -> Result<Vec<u8>, core::convert::Infallible> {
    embedded_io_async::BufRead::fill_buf(buf).await.map(|s| s.to_vec())
}

pub const TCAPS: [u32; 14] = [0, 1, 2, 3, 4, 5, 6, 7, 8, 13, 16, 33, 64, 100];

pub fn run_tcase(c: &TCase, trace: &mut Vec<String>, want_trace: bool) -> Result<(u64, bool), String> {
    macro_rules! table {
        ($($n:literal),*) => {
            match c.n {
                $($n => run_n::<$n>(c, trace, want_trace),)*
                n => Err(format!("capacity {n} not in table")),
            }
        };
    }
    table!(0, 1, 2, 3, 4, 5, 6, 7, 8, 13, 16, 33, 64, 100)
}

pub fn enum_ops(n: usize, len: usize) -> Vec<TOp> {
    let mut ops = vec![TOp::FillBuf, TOp::Flush, TOp::Consume(u32::MAX)];
    for m in 0..=(2 * n + 1) as u32 {
        ops.push(TOp::Write(m));
    }
    ops.push(TOp::WriteAll((n + 1) as u32));
    for d in 0..=(n + 2) as u32 {
        ops.push(TOp::Read(d));
    }
    ops.push(TOp::ReadExact(len as u32));
    ops.push(TOp::ReadExact((len / 2) as u32));
    ops.push(TOp::ReadExact((len + 1) as u32));
    for k in 0..=(len + 2) as u32 {
        ops.push(TOp::Consume(k));
    }
    for f in [0u16, 20000, 40000, 65535] {
        ops.push(TOp::FillBufConsume(f));
    }
    ops
}

/// All single operations and all pairs from every layout, each followed by a short fixed tail that makes
/// the position of the front visible again when the operations emptied the buffer.
pub fn enum_cases(n: usize, start: usize, len: usize, api: TApi, thorough: bool) -> Vec<TCase> {
    let ops = enum_ops(n, len);
    let tail = [TOp::Write(2), TOp::FillBuf, TOp::Read(1), TOp::Write(n as u32), TOp::FillBuf, TOp::Read((n + 1) as u32)];
    let mk = |mut v: Vec<TOp>| {
        v.extend(tail.iter().cloned());
        TCase { n: n as u32, start: start as u32, len: len as u32, api, ops: v }
    };
    let mut out = Vec::new();
    for a in &ops {
        out.push(mk(vec![a.clone()]));
    }
    if n <= if thorough { 6 } else { 4 } {
        for a in &ops {
            for b in &ops {
                out.push(mk(vec![a.clone(), b.clone()]));
            }
        }
    }
    out
}

pub fn tcase_strategy(api: TApi, max_ops: usize) -> proptest::strategy::BoxedStrategy<TCase> {
    use proptest::prelude::*;
    proptest::sample::select(TCAPS.to_vec())
        .prop_flat_map(move |n| {
            let sz = prop_oneof![8 => 0u32..6, 6 => 0u32..(n + 3), 4 => 0u32..(2 * n + 3), 2 => n.saturating_sub(1)..(n + 2)];
            let op = prop_oneof![
                8 => sz.clone().prop_map(TOp::Write),
                1 => sz.clone().prop_map(TOp::WriteAll),
                8 => sz.clone().prop_map(TOp::Read),
                2 => sz.clone().prop_map(TOp::ReadExact),
                3 => Just(TOp::FillBuf),
                4 => sz.clone().prop_map(TOp::Consume),
                1 => Just(TOp::Consume(u32::MAX)),
                4 => any::<u16>().prop_map(TOp::FillBufConsume),
                1 => Just(TOp::Flush),
            ];
            (Just(n), any::<u16>(), any::<u16>(), proptest::collection::vec(op, 0..=max_ops))
        })
        .prop_map(move |(n, s, l, ops)| TCase { n, start: if n == 0 { 0 } else { (s as u32 * n) >> 16 }, len: (l as u32 * (n + 1)) >> 16, api, ops })
        .boxed()
}

/// One group = one (api, capacity) pair of the enumerated space, or the generated histories of an api.
pub struct Group {
    pub name: String,
    pub cases: Vec<TCase>,
}

pub fn groups(apis: &[TApi], thorough: bool, seed: u64, prop_cases: u32) -> Vec<Group> {
    use proptest::strategy::{Strategy, ValueTree};
    use proptest::test_runner::{Config, RngAlgorithm, TestRng, TestRunner};
    let mut out = Vec::new();
    let maxn = if thorough { 8 } else { 6 };
    for api in apis {
        for n in 0..=maxn {
            let mut cases = Vec::new();
            for start in 0..n.max(1) {
                for len in 0..=n {
                    cases.extend(enum_cases(n, start, len, *api, thorough));
                }
            }
            out.push(Group { name: format!("{api:?}/enumerated/N={n}"), cases });
        }
        let mut sb = [0u8; 32];
        sb[..8].copy_from_slice(&seed.to_le_bytes());
        sb[8] = *api as u8;
        let mut runner = TestRunner::new_with_rng(Config { failure_persistence: None, ..Config::default() }, TestRng::from_seed(RngAlgorithm::ChaCha, &sb));
        let strat = tcase_strategy(*api, if thorough { 60 } else { 24 });
        let cases: Vec<TCase> = (0..prop_cases).map(|_| strat.new_tree(&mut runner).unwrap().current()).collect();
        out.push(Group { name: format!("{api:?}/generated"), cases });
    }
    out
}
