//! Large heap-allocated buffers in an UNOPTIMISED build (C11 "every capacity", C12 "boxed gives an empty buffer").
//! `boxed()` exists for buffers that do not fit on the stack; in a build without optimisations every by-value
//! temporary of the buffer type really occupies stack, so an operation that takes the buffer by reference must not
//! create one.  Each step runs on a thread with the default 2 MiB stack (what a test or spawned thread gets) against
//! a buffer of 4 MiB, from several layouts, and is compared with a VecDeque model.  A stack overflow kills the
//! process; the caller learns the step from the `STEP` line printed before it.

use circular_buffer::CircularBuffer;
use serde::{Deserialize, Serialize};
use std::collections::VecDeque;
use std::io::Write as _;

pub const BIG: usize = 4 * 1024 * 1024;
type Buf = CircularBuffer<BIG, u8>;

#[derive(Debug, Clone, Copy, PartialEq, Eq, Hash, Serialize, Deserialize)]
pub enum BigOp {
    PushBack,
    PushFront,
    TryPushBack,
    TryPushFront,
    PopBack,
    PopFront,
    Access,
    Remove,
    Swap,
    SwapRemove,
    TruncateBack,
    TruncateFront,
    Clear,
    ExtendIter,
    ExtendFromSlice,
    Fill,
    FillWith,
    FillSpare,
    FillSpareWith,
    MakeContiguous,
    Drain,
    Iterate,
    IterMut,
    Range,
    ToVec,
    CloneFrom,
    Compare,
    HashIt,
    IoWriteRead,
    IoBufRead,
    DropBox,
}

pub const ALL_OPS: &[BigOp] = &[
    BigOp::PushBack, BigOp::PushFront, BigOp::TryPushBack, BigOp::TryPushFront, BigOp::PopBack, BigOp::PopFront, BigOp::Access, BigOp::Remove,
    BigOp::Swap, BigOp::SwapRemove, BigOp::TruncateBack, BigOp::TruncateFront, BigOp::Clear, BigOp::ExtendIter, BigOp::ExtendFromSlice,
    BigOp::Fill, BigOp::FillWith, BigOp::FillSpare, BigOp::FillSpareWith, BigOp::MakeContiguous, BigOp::Drain, BigOp::Iterate, BigOp::IterMut,
    BigOp::Range, BigOp::ToVec, BigOp::CloneFrom, BigOp::Compare, BigOp::HashIt, BigOp::IoWriteRead, BigOp::IoBufRead, BigOp::DropBox,
];

#[derive(Debug, Clone, Copy, PartialEq, Eq, Hash, Serialize, Deserialize)]
pub struct BigCase {
    /// front position in 1/4 of the capacity (0..=3; 4 = last slot)
    pub start_q: u8,
    /// length in 1/4 of the capacity (0..=4), plus `extra` elements
    pub len_q: u8,
    pub op: BigOp,
}

pub fn all_cases() -> Vec<BigCase> {
    let mut v = Vec::new();
    for (start_q, len_q) in [(0u8, 0u8), (0, 2), (2, 3), (4, 4), (3, 1), (4, 0)] {
        for op in ALL_OPS {
            v.push(BigCase { start_q, len_q, op: *op });
        }
    }
    v
}

fn build(c: &BigCase) -> (Box<Buf>, VecDeque<u8>) {
    let mut b = Buf::boxed();
    let start = if c.start_q >= 4 { BIG - 1 } else { c.start_q as usize * (BIG / 4) };
    // move the front: fill up to `start` in bulk, then drop the lot from the front
    let chunk = vec![0u8; 1 << 16];
    let mut left = start;
    while left > 0 {
        let k = left.min(chunk.len());
        b.extend_from_slice(&chunk[..k]);
        left -= k;
    }
    b.truncate_front(0);
    let len = c.len_q as usize * (BIG / 4);
    let mut m = VecDeque::with_capacity(BIG + 16);
    let mut v = Vec::with_capacity(len);
    for i in 0..len {
        v.push((i % 251) as u8);
    }
    b.extend_from_slice(&v);
    m.extend(v.iter().copied());
    (b, m)
}

fn same(b: &Buf, m: &VecDeque<u8>, what: &str) -> Result<(), String> {
    if b.len() != m.len() {
        return Err(format!("{what}: len() = {}, expected {}", b.len(), m.len()));
    }
    let (s1, s2) = b.as_slices();
    let (m1, m2) = m.as_slices();
    let mut flat = Vec::with_capacity(m.len());
    flat.extend_from_slice(m1);
    flat.extend_from_slice(m2);
    if s1.len() + s2.len() != flat.len() || s1 != &flat[..s1.len()] || s2 != &flat[s1.len()..] {
        return Err(format!("{what}: contents differ from the model"));
    }
    Ok(())
}

fn cap(m: &mut VecDeque<u8>) {
    while m.len() > BIG {
        m.pop_front();
    }
}

pub fn run_case(c: &BigCase) -> Result<bool, String> {
    let (mut b, mut m) = build(c);
    same(&b, &m, "setup")?;
    let len = m.len();
    let mid = len / 2;
    match c.op {
        BigOp::PushBack => {
            for k in 0..3u8 {
                let exp = if m.len() == BIG { m.pop_front() } else { None };
                m.push_back(k);
                if b.push_back(k) != exp {
                    return Err("push_back returned the wrong element".into());
                }
            }
        }
        BigOp::PushFront => {
            for k in 0..3u8 {
                let exp = if m.len() == BIG { m.pop_back() } else { None };
                m.push_front(k);
                if b.push_front(k) != exp {
                    return Err("push_front returned the wrong element".into());
                }
            }
        }
        BigOp::TryPushBack => {
            let r = b.try_push_back(9);
            if (m.len() == BIG) != r.is_err() {
                return Err("try_push_back: wrong Ok/Err".into());
            }
            if r.is_ok() {
                m.push_back(9);
            }
        }
        BigOp::TryPushFront => {
            let r = b.try_push_front(9);
            if (m.len() == BIG) != r.is_err() {
                return Err("try_push_front: wrong Ok/Err".into());
            }
            if r.is_ok() {
                m.push_front(9);
            }
        }
        BigOp::PopBack => {
            if b.pop_back() != m.pop_back() || b.pop_back() != m.pop_back() {
                return Err("pop_back returned the wrong element".into());
            }
        }
        BigOp::PopFront => {
            if b.pop_front() != m.pop_front() || b.pop_front() != m.pop_front() {
                return Err("pop_front returned the wrong element".into());
            }
        }
        BigOp::Access => {
            for i in [0, 1, mid, len.saturating_sub(1), len, usize::MAX] {
                if b.get(i) != m.get(i) || b.nth_front(i) != m.get(i) {
                    return Err(format!("get({i}) disagrees with the model"));
                }
                let back = len.checked_sub(1).and_then(|l| l.checked_sub(i)).and_then(|j| m.get(j));
                if b.nth_back(i) != back {
                    return Err(format!("nth_back({i}) disagrees with the model"));
                }
                if let Some(r) = b.get_mut(i) {
                    *r = r.wrapping_add(1);
                    *m.get_mut(i).unwrap() = *r;
                }
            }
            if b.front() != m.front() || b.back() != m.back() {
                return Err("front/back disagree with the model".into());
            }
            if let (Some(x), Some(y)) = (b.front_mut(), m.front_mut()) {
                *x = 200;
                *y = 200;
            }
            if let (Some(x), Some(y)) = (b.back_mut(), m.back_mut()) {
                *x = 201;
                *y = 201;
            }
            if len > 0 && b[mid] != m[mid] {
                return Err("index disagrees".into());
            }
        }
        BigOp::Remove => {
            for i in [mid, 0, len.saturating_sub(3), usize::MAX] {
                if b.remove(i) != m.remove(i) {
                    return Err(format!("remove({i}) returned the wrong element"));
                }
            }
        }
        BigOp::Swap => {
            if len >= 2 {
                b.swap(0, len - 1);
                m.swap(0, len - 1);
                b.swap(mid, 1);
                m.swap(mid, 1);
            }
        }
        BigOp::SwapRemove => {
            if b.swap_remove_back(mid) != m.swap_remove_back(mid) || b.swap_remove_front(1) != m.swap_remove_front(1) {
                return Err("swap_remove returned the wrong element".into());
            }
        }
        BigOp::TruncateBack => {
            b.truncate_back(mid + 1);
            m.truncate(mid + 1);
        }
        BigOp::TruncateFront => {
            b.truncate_front(mid + 1);
            let cut = len.saturating_sub(mid + 1);
            m.drain(..cut);
        }
        BigOp::Clear => {
            b.clear();
            m.clear();
        }
        BigOp::ExtendIter => {
            b.extend((0..70_000u32).map(|x| x as u8));
            m.extend((0..70_000u32).map(|x| x as u8));
            cap(&mut m);
        }
        BigOp::ExtendFromSlice => {
            let src: Vec<u8> = (0..BIG / 2 + 77).map(|x| (x % 13) as u8).collect();
            b.extend_from_slice(&src);
            m.extend(src.iter().copied());
            cap(&mut m);
            let src2 = vec![5u8; BIG + 3];
            b.extend_from_slice(&src2);
            m.extend(src2.iter().copied());
            cap(&mut m);
        }
        BigOp::Fill => {
            b.fill(7);
            m.clear();
            m.extend(std::iter::repeat(7u8).take(BIG));
        }
        BigOp::FillWith => {
            let mut k = 0u8;
            b.fill_with(|| {
                k = k.wrapping_add(1);
                k
            });
            m.clear();
            let mut k = 0u8;
            m.extend((0..BIG).map(|_| {
                k = k.wrapping_add(1);
                k
            }));
        }
        BigOp::FillSpare => {
            b.fill_spare(8);
            let free = BIG - m.len();
            m.extend(std::iter::repeat(8u8).take(free));
        }
        BigOp::FillSpareWith => {
            b.fill_spare_with(|| 3);
            let free = BIG - m.len();
            m.extend(std::iter::repeat(3u8).take(free));
        }
        BigOp::MakeContiguous => {
            let s = b.make_contiguous();
            if s.len() != len {
                return Err("make_contiguous returned a slice of the wrong length".into());
            }
            if !b.as_slices().1.is_empty() {
                return Err("as_slices reports two slices after make_contiguous".into());
            }
        }
        BigOp::Drain => {
            if len >= 8 {
                let a = len / 4;
                let z = a + len / 3;
                let got: Vec<u8> = b.drain(a..z).take(1000).collect();
                let want: Vec<u8> = m.drain(a..z).take(1000).collect();
                if got != want {
                    return Err("drain yielded the wrong elements".into());
                }
            }
            let n1 = b.drain(..).count();
            if n1 != m.len() {
                return Err("drain(..).count() is wrong".into());
            }
            m.clear();
        }
        BigOp::Iterate => {
            if !b.iter().eq(m.iter()) || !b.iter().rev().step_by(1001).eq(m.iter().rev().step_by(1001)) || b.iter().count() != len {
                return Err("iter() disagrees with the model".into());
            }
            if !(&*b).into_iter().skip(len / 3).take(50).eq(m.iter().skip(len / 3).take(50)) {
                return Err("(&buf).into_iter() disagrees with the model".into());
            }
        }
        BigOp::IterMut => {
            for (x, y) in b.iter_mut().zip(m.iter_mut()).step_by(4099) {
                *x = x.wrapping_mul(3);
                *y = *x;
            }
            for x in b.iter_mut().rev().take(3) {
                *x = 1;
            }
            for y in m.iter_mut().rev().take(3) {
                *y = 1;
            }
        }
        BigOp::Range => {
            if len >= 4 {
                let (a, z) = (len / 4, len - len / 8);
                if !b.range(a..z).eq(m.range(a..z)) || b.range(..=a).len() != a + 1 {
                    return Err("range() disagrees with the model".into());
                }
                for x in b.range_mut(a..z).step_by(513) {
                    *x = 99;
                }
                for y in m.range_mut(a..z).step_by(513) {
                    *y = 99;
                }
            }
        }
        BigOp::ToVec => {
            let v = b.to_vec();
            if !v.iter().eq(m.iter()) {
                return Err("to_vec() disagrees with the model".into());
            }
        }
        BigOp::CloneFrom => {
            let mut other = Buf::boxed();
            other.extend_from_slice(&[1, 2, 3]);
            other.clone_from(&b);
            same(&other, &m, "clone_from (destination)")?;
            // and the other direction, through Box::clone_from
            let mut third = Buf::boxed();
            third.extend_from_slice(&vec![4u8; BIG / 2]);
            Clone::clone_from(&mut third, &other);
            same(&third, &m, "Box::clone_from (destination)")?;
        }
        BigOp::Compare => {
            let mut other = Buf::boxed();
            other.push_front(0);
            other.pop_back();
            other.extend(m.iter().copied());
            if *b != *other || b.partial_cmp(&other) != Some(std::cmp::Ordering::Equal) || b.cmp(&other) != std::cmp::Ordering::Equal {
                return Err("a buffer and a copy of it at another front position compare unequal".into());
            }
            other.push_back(255);
            if m.len() < BIG && (*b == *other || !(*b < *other)) {
                return Err("comparison with a longer buffer is wrong".into());
            }
            let flat: Vec<u8> = m.iter().copied().collect();
            if *b != flat[..] {
                return Err("buffer != equal slice".into());
            }
        }
        BigOp::HashIt => {
            use std::hash::{Hash, Hasher};
            let mut other = Buf::boxed();
            other.push_front(0);
            other.pop_back();
            other.extend(m.iter().copied());
            let mut h1 = std::collections::hash_map::DefaultHasher::new();
            let mut h2 = std::collections::hash_map::DefaultHasher::new();
            b.hash(&mut h1);
            other.hash(&mut h2);
            if h1.finish() != h2.finish() {
                return Err("equal buffers hash differently".into());
            }
        }
        BigOp::IoWriteRead => {
            use std::io::{Read, Write};
            let src: Vec<u8> = (0..100_000).map(|x| (x % 7) as u8).collect();
            if b.write(&src).ok() != Some(src.len()) || b.flush().is_err() {
                return Err("write failed".into());
            }
            m.extend(src.iter().copied());
            cap(&mut m);
            let mut dst = vec![0u8; 70_001];
            let k = b.read(&mut dst).map_err(|e| e.to_string())?;
            let want: Vec<u8> = m.drain(..dst.len().min(m.len())).collect();
            if k != want.len() || dst[..k] != want[..] {
                return Err("read delivered the wrong bytes".into());
            }
            let mut all = Vec::new();
            let k = b.read_to_end(&mut all).map_err(|e| e.to_string())?;
            if k != m.len() || !all.iter().eq(m.iter()) {
                return Err("read_to_end delivered the wrong bytes".into());
            }
            m.clear();
        }
        BigOp::IoBufRead => {
            use std::io::BufRead;
            let p = b.fill_buf().map_err(|e| e.to_string())?.len();
            if (p == 0) != m.is_empty() || p > m.len() {
                return Err("fill_buf returned the wrong chunk".into());
            }
            b.consume(p / 2 + 1);
            let k = (p / 2 + 1).min(m.len());
            m.drain(..k);
            b.consume(usize::MAX);
            m.clear();
        }
        BigOp::DropBox => {
            drop(b);
            return Ok(len > 0);
        }
    }
    same(&b, &m, "afterwards")?;
    // the buffer keeps working
    b.push_back(42);
    m.push_back(42);
    cap(&mut m);
    b.push_front(43);
    if m.len() == BIG {
        m.pop_back();
    }
    m.push_front(43);
    same(&b, &m, "after two more insertions")?;
    Ok(len > 0)
}

/// Runs the selected cases each on its own 2 MiB thread; prints a STEP line first.
pub fn run(select: &dyn Fn(usize, &BigCase) -> bool) -> (u64, u64, Option<(BigCase, String)>) {
    let cases = all_cases();
    let (mut evals, mut nontrivial) = (0u64, 0u64);
    for (i, c) in cases.iter().enumerate() {
        if !select(i, c) {
            continue;
        }
        println!("STEP {i} {}", serde_json::to_string(c).unwrap());
        std::io::stdout().flush().ok();
        let c2 = *c;
        let h = std::thread::Builder::new().stack_size(2 * 1024 * 1024).spawn(move || run_case(&c2)).expect("spawn");
        evals += 1;
        match h.join() {
            Ok(Ok(nt)) => nontrivial += nt as u64,
            Ok(Err(m)) => return (evals, nontrivial, Some((*c, m))),
            Err(p) => return (evals, nontrivial, Some((*c, format!("unexpected panic: {}", crate::interp::panic_msg(&p))))),
        }
    }
    (evals, nontrivial, None)
}
