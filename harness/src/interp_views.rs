//! Views, iterators, drains, comparisons and constructors of the interpreter.

use crate::case::*;
use crate::deq::{from_array, from_iter_dyn, make_buf, unzip_dyn, Ctor, FROM_ARRAY_MAX_M, FROM_ARRAY_MAX_N};
use crate::interp::*;
use crate::interp_ops::{cc, GenIter};
use crate::model::{range_must_panic, range_to_pair};
use crate::tracked::{self as ledger, Tracked};
use std::cmp::Ordering;
use std::ops::Bound;

fn addr(t: &Tracked) -> usize {
    t as *const Tracked as usize
}

fn lex(a: &[u32], b: &[u32]) -> Ordering {
    let mut i = 0;
    loop {
        match (a.get(i), b.get(i)) {
            (None, None) => return Ordering::Equal,
            (None, Some(_)) => return Ordering::Less,
            (Some(_), None) => return Ordering::Greater,
            (Some(x), Some(y)) => {
                if x < y {
                    return Ordering::Less;
                }
                if x > y {
                    return Ordering::Greater;
                }
            }
        }
        i += 1;
    }
}

fn check_ref(what: &str, got: Option<&Tracked>, exp: Option<&Obs>) -> R<()> {
    match (got, exp) {
        (None, None) => Ok(()),
        (Some(t), Some(o)) => {
            if addr(t) != o.addr {
                return Err(format!("{what} refers to address {:#x}, expected the element at {:#x} (id {})", addr(t), o.addr, o.id));
            }
            let id = t.peek_id().map_err(|e| format!("{what}: {e}"))?;
            if id != o.id {
                return Err(format!("{what} refers to element id {id}, expected id {}", o.id));
            }
            Ok(())
        }
        (Some(t), None) => Err(format!("{what} returned an element (at {:#x}) for a position outside the contents", addr(t))),
        (None, Some(o)) => Err(format!("{what} returned None, expected element id {}", o.id)),
    }
}

fn has_both(script: &[Step]) -> bool {
    script.iter().any(|s| matches!(s, Step::Next | Step::Nth(_)))
        && script.iter().any(|s| matches!(s, Step::NextBack | Step::NthBack(_)))
}

impl St {
    fn sel_flags(&mut self, lo: usize, hi: usize) {
        if hi > lo && self.n > 0 {
            if let (Some(a), Some(b)) = (self.slot_of(self.last_obs[lo].addr), self.slot_of(self.last_obs[hi - 1].addr)) {
                if b < a {
                    self.flags |= fl::SEL_WRAPS;
                }
            }
        }
    }

    fn fresh_buf(&mut self) {
        let (n, c) = (self.n, self.ctor);
        self.buf = Some(make_buf::<Tracked>(n, c));
    }

    pub(crate) fn apply_views(&mut self, op: &Op) -> R<Flow> {
        let n = self.n;
        let len = self.model.len();
        match op {
            Op::Drain(spec, script, end) => {
                let ra = spec.resolve(len);
                let must_panic = range_must_panic(ra.start, ra.end, len);
                let (a, b) = if must_panic {
                    (0, 0)
                } else {
                    let (s, e) = range_to_pair(ra.start, ra.end, len);
                    (s as usize, e as usize)
                };
                if !must_panic {
                    if a < b && b < len {
                        self.flags |= fl::DRAIN_MID;
                    }
                    if a > 0 || b < len {
                        self.flags |= fl::OUTSIDE_RANGE;
                    }
                    self.sel_flags(a, b);
                }
                if has_both(script) {
                    self.flags |= fl::MIXED_DIR;
                }
                let before = self.model.clone();
                let mut yielded: Vec<Tracked> = Vec::new();
                let script = script.clone();
                let end = *end;
                let r = {
                    let y = &mut yielded;
                    let before = &before;
                    self.call(move |buf| -> R<()> {
                        let mut d = buf.drain(ra);
                        let (mut lo, mut hi) = (a, b);
                        for st in script.iter() {
                            let rem = hi - lo;
                            if d.len() != rem {
                                return Err(format!("drain len() = {} with {rem} elements not yet yielded", d.len()));
                            }
                            if d.size_hint() != (rem, Some(rem)) {
                                return Err(format!("drain size_hint() = {:?}, expected exactly {rem}", d.size_hint()));
                            }
                            match st {
                                Step::Next | Step::NextBack => {
                                    let front = matches!(st, Step::Next);
                                    let got = if front { d.next() } else { d.next_back() };
                                    let exp = if lo < hi {
                                        Some(if front { before[lo].0 } else { before[hi - 1].0 })
                                    } else {
                                        None
                                    };
                                    let gid = match &got {
                                        Some(t) => Some(t.raw_id()),
                                        None => None,
                                    };
                                    if let Some(t) = got {
                                        y.push(t);
                                    }
                                    if gid != exp {
                                        return Err(format!(
                                            "drain {} yielded element id {:?}, expected {:?}",
                                            if front { "next()" } else { "next_back()" }, gid, exp
                                        ));
                                    }
                                    if exp.is_none() {
                                        // a used-up drain stays used up, whichever end is asked, however often
                                        for k in 0..4 {
                                            let again = if (k % 2 == 0) == front { d.next_back() } else { d.next() };
                                            if let Some(t) = again {
                                                let id = t.raw_id();
                                                y.push(t);
                                                return Err(format!("a drain that had returned None yielded element id {id} when it was asked again (call {k}, other end first)"));
                                            }
                                        }
                                        if d.len() != 0 || d.size_hint() != (0, Some(0)) {
                                            return Err(format!("a used-up drain reports len {} / size_hint {:?}", d.len(), d.size_hint()));
                                        }
                                    }
                                    if lo < hi {
                                        if front {
                                            lo += 1
                                        } else {
                                            hi -= 1
                                        }
                                    }
                                }
                                Step::Dbg => {
                                    let rem: Vec<u32> = before[lo..hi].iter().map(|m| m.0).collect();
                                    debug_touches_only("the drain", &rem, || d.debug_string())?;
                                    // a sink that gives up (Err) or panics part of the way: formatting takes `&self`, nothing may change
                                    let full = untracked(|| d.debug_string()).len();
                                    for (budget, panic) in [(0, false), (full / 2, false), (full.saturating_sub(1), false), (full / 2, true), (0, true)] {
                                        // (whether the error of the sink is reported is not part of any listed property)
                                        let _ = untracked(|| d.debug_failing(budget, panic));
                                        if d.len() != hi - lo {
                                            return Err(format!("after an interrupted {{:?}} the drain reports len {} (expected {})", d.len(), hi - lo));
                                        }
                                    }
                                }
                                Step::Nth(k) | Step::NthBack(k) => {
                                    let k = *k as usize;
                                    let front = matches!(st, Step::Nth(_));
                                    let got = if front { d.nth(k) } else { d.nth_back(k) };
                                    let exp = if lo + k < hi { Some(if front { before[lo + k].0 } else { before[hi - 1 - k].0 }) } else { None };
                                    let gid = got.as_ref().map(|t| t.raw_id());
                                    if let Some(t) = got {
                                        y.push(t);
                                    }
                                    if gid != exp {
                                        return Err(format!("drain {}({k}) yielded element id {:?}, expected {:?}", if front { "nth" } else { "nth_back" }, gid, exp));
                                    }
                                    if lo + k < hi {
                                        if front {
                                            lo += k + 1
                                        } else {
                                            hi -= k + 1
                                        }
                                    } else {
                                        // past the end: every remaining element was consumed (and destroyed) on the way,
                                        // the drain is exhausted from now on; the script goes on (it may end in a forget)
                                        if front {
                                            lo = hi
                                        } else {
                                            hi = lo
                                        }
                                        if d.len() != 0 || d.size_hint() != (0, Some(0)) {
                                            return Err(format!(
                                                "drain {}({k}) ran out of elements but the drain then reports len() = {}, size_hint() = {:?}",
                                                if front { "nth" } else { "nth_back" }, d.len(), d.size_hint()
                                            ));
                                        }
                                    }
                                }
                                Step::Search | Step::PanicSearch(..) => {}
                                Step::FindMid | Step::RFindMid => {
                                    if lo < hi {
                                        let mid = lo + (hi - lo) / 2;
                                        let target = before[mid].0;
                                        let front = matches!(st, Step::FindMid);
                                        let mut f = |t: &Tracked| t.raw_id() == target;
                                        let got = if front { d.position_dyn(&mut f) } else { d.rposition_dyn(&mut f) };
                                        if got != Some(mid - lo) {
                                            return Err(format!("drain {}(middle element) returned {:?}, expected {:?}", if front { "position" } else { "rposition" }, got, Some(mid - lo)));
                                        }
                                        // everything passed over (and the match itself) has been consumed and destroyed
                                        if front {
                                            lo = mid + 1
                                        } else {
                                            hi = mid
                                        }
                                    }
                                }
                                Step::Count => {
                                    let c = d.count_rest();
                                    if c != hi - lo {
                                        return Err(format!("drain count() = {c}, expected {}", hi - lo));
                                    }
                                    return Ok(());
                                }
                                Step::Last | Step::Fold | Step::RevCollect | Step::Skip(_) | Step::StepBy(_) | Step::Fork | Step::RFold | Step::RevLast | Step::Via(_) => {
                                    let (v, want): (Vec<Tracked>, Vec<u32>) = match st {
                                        Step::Fold => (d.fold_collect(), before[lo..hi].iter().map(|m| m.0).collect()),
                                        Step::RFold => (d.rfold_collect(), before[lo..hi].iter().rev().map(|m| m.0).collect()),
                                        Step::Via(f) if f % 2 == 1 => (d.via_collect(*f), before[lo..hi].iter().rev().map(|m| m.0).collect()),
                                        Step::Via(f) => (d.via_collect(*f), before[lo..hi].iter().map(|m| m.0).collect()),
                                        Step::RevLast => (d.rev_last().into_iter().collect(), before[lo..hi].iter().take(1).map(|m| m.0).collect()),
                                        Step::Last => (d.last_rest().into_iter().collect(), before[lo..hi].iter().rev().take(1).map(|m| m.0).collect()),
                                        Step::RevCollect => (d.rev_collect_rest(), before[lo..hi].iter().rev().map(|m| m.0).collect()),
                                        Step::Skip(k) => (d.skip_collect(*k as usize), before[lo..hi].iter().skip(*k as usize).map(|m| m.0).collect()),
                                        Step::StepBy(k) => (d.step_by_collect(*k as usize), before[lo..hi].iter().step_by(*k as usize + 1).map(|m| m.0).collect()),
                                        _ => (d.collect_rest(), before[lo..hi].iter().map(|m| m.0).collect()),
                                    };
                                    let got: Vec<u32> = v.iter().map(|t| t.raw_id()).collect();
                                    y.extend(v);
                                    if got != want {
                                        return Err(format!("consuming the rest of the drain with {st:?} gave ids {:?}, expected {:?}", got, want));
                                    }
                                    return Ok(());
                                }
                            }
                        }
                        if d.len() != hi - lo {
                            return Err(format!("drain len() = {} with {} elements not yet yielded", d.len(), hi - lo));
                        }
                        match end {
                            End::Drop => drop(d),
                            End::Forget => d.forget(),
                        }
                        Ok(())
                    })
                };
                let had_yield = !yielded.is_empty();
                let mut yids = Vec::new();
                let mut hold_err = None;
                for t in yielded {
                    match self.hold(t) {
                        Ok(id) => yids.push(id),
                        Err(e) => hold_err = Some(e),
                    }
                }
                if let Some(e) = hold_err {
                    return Err(e);
                }
                match r {
                    Called::Panic(m) => {
                        if must_panic {
                            self.flags |= fl::DOC_PANIC;
                            self.dig(0xDEAD);
                            return Ok(Flow::Done);
                        }
                        Err(format!("unexpected panic: {m}"))
                    }
                    Called::Injected => Ok(Flow::Injected),
                    Called::Ok(Err(e)) => Err(e),
                    Called::Ok(Ok(())) => {
                        if must_panic {
                            return Err(format!("drain({spec}) on a buffer of length {len} did not panic"));
                        }
                        for id in &yids {
                            let v = ledger::slot(*id).map(|s| s.val).unwrap_or(0);
                            self.dig(v as u64 ^ 0x77);
                        }
                        match end {
                            End::Drop => {
                                let mut m = before[..a].to_vec();
                                m.extend_from_slice(&before[b..]);
                                self.model = m;
                                self.dead_ids.extend(before[a..b].iter().map(|x| x.0).filter(|i| !yids.contains(i)));
                            }
                            End::Forget => {
                                // validity predicate only: the documentation allows arbitrary loss
                                let obs = self.observe()?;
                                for o in &obs {
                                    if !before.iter().any(|m| m.0 == o.id) {
                                        return Err(format!("after leaking the drain the buffer contains element id={} which was not in it before", o.id));
                                    }
                                    if yids.contains(&o.id) {
                                        return Err(format!("after leaking the drain the buffer still contains element id={} which the drain already handed out", o.id));
                                    }
                                }
                                self.model = obs.iter().map(|o| (o.id, o.val)).collect();
                                self.leak_ok = true;
                                self.flags |= fl::FORGOT;
                                if had_yield {
                                    self.flags |= fl::FORGET_AFTER_YIELD;
                                }
                            }
                        }
                        self.flags |= fl::READ_OR_MOVED;
                        Ok(Flow::Done)
                    }
                }
            }
            Op::ShiftyRange(spec, mode, which) => {
                let ra = spec.resolve(len);
                let before = self.model.clone();
                let obs_before = self.last_obs.clone();
                let (mode, which) = (*mode, *which);
                let r = self.call(move |b| b.shifty(ra, mode, which));
                let (vals, addrs) = match r {
                    Called::Injected => return Ok(Flow::Injected),
                    Called::Panic(_) => {
                        // rejecting the inconsistent bounds is fine, provided nothing happened to the contents
                        let obs = self.observe()?;
                        if obs.iter().map(|o| o.id).collect::<Vec<_>>() != before.iter().map(|m| m.0).collect::<Vec<_>>() {
                            return Err("the call panicked on bounds that change between calls and left the contents changed".to_string());
                        }
                        self.flags |= fl::DOC_PANIC;
                        return Ok(Flow::Done);
                    }
                    Called::Ok(v) => v,
                };
                let yielded: Vec<u32> = vals.iter().map(|t| t.raw_id()).collect();
                let mut herr = None;
                for t in vals {
                    if let Err(e) = self.hold(t) {
                        herr = Some(e);
                    }
                }
                if let Some(e) = herr {
                    return Err(e);
                }
                let obs = self.observe()?;
                let now: Vec<u32> = obs.iter().map(|o| o.id).collect();
                let was: Vec<u32> = before.iter().map(|m| m.0).collect();
                if which % 3 == 0 {
                    // whatever reading of the bounds was used: one contiguous block is gone, it contains what was yielded
                    // (in order), and the rest is in place
                    let x = now.iter().zip(was.iter()).take_while(|(a, b)| a == b).count();
                    let gone = was.len().checked_sub(now.len()).ok_or("the buffer grew during a drain")?;
                    if now[x..] != was[x + gone..] {
                        return Err(format!("after drain with bounds that change between calls the contents {:?} are not the old contents {:?} with one contiguous block removed", now, was));
                    }
                    let block = &was[x..x + gone];
                    let mut k = 0;
                    for y in &yielded {
                        match block[k..].iter().position(|b| b == y) {
                            Some(p) => k += p + 1,
                            None => return Err(format!("the drain yielded element id={y}, which is not in the removed block {:?} (or out of order)", block)),
                        }
                    }
                    self.dead_ids.extend(block.iter().filter(|b| !yielded.contains(b)));
                } else {
                    if now != was {
                        return Err("range / range_mut with bounds that change between calls changed the contents".to_string());
                    }
                    // the view walked a contiguous run of the contents, front to back
                    let pos: Vec<Option<usize>> = addrs.iter().map(|a| obs_before.iter().position(|o| o.addr == *a)).collect();
                    for w in pos.windows(2) {
                        if w[0].is_none() || w[1].is_none() || w[1].unwrap() != w[0].unwrap() + 1 {
                            return Err(format!("range with bounds that change between calls yielded positions {:?}, which is not a contiguous run of the contents", pos));
                        }
                    }
                    if pos.len() == 1 && pos[0].is_none() {
                        return Err("range with bounds that change between calls yielded a reference outside the contents".to_string());
                    }
                }
                self.model = obs.iter().map(|o| (o.id, o.val)).collect();
                self.flags |= fl::READ_OR_MOVED;
                Ok(Flow::Done)
            }
            Op::Set(acc, idx) | Op::Mutate(acc, idx) => {
                let set = matches!(op, Op::Set(..));
                let p = idx.resolve(len);
                if p.saturating_add(1) >= len {
                    self.flags |= fl::BOUNDARY_ARG;
                }
                let target: Option<usize> = match acc {
                    Acc::FrontMut => {
                        if len > 0 {
                            Some(0)
                        } else {
                            None
                        }
                    }
                    Acc::BackMut => len.checked_sub(1),
                    // Iterator::max: the last of the greatest elements; Iterator::min: the first of the least ones
                    Acc::IterMutMax => (0..len).max_by_key(|k| self.model[*k].1),
                    Acc::IterMutMin => (0..len).min_by_key(|k| self.model[*k].1),
                    Acc::NthBackMut | Acc::IterMutRev => {
                        if p < len {
                            Some(len - 1 - p)
                        } else {
                            None
                        }
                    }
                    _ => {
                        if p < len {
                            Some(p)
                        } else {
                            None
                        }
                    }
                };
                let must_panic = matches!(acc, Acc::IndexMut | Acc::RangeMut) && p >= len;
                let newv = self.next_val;
                self.next_val += 1;
                let new = if set { Some(Tracked::new(newv)) } else { None };
                let newid = new.as_ref().map(|t| t.raw_id());
                let acc = *acc;
                let mut spare: Option<Tracked> = None;
                let r = {
                    let spare = &mut spare;
                    self.call(move |b| -> (Option<usize>, Option<Tracked>) {
                        let r: Option<&mut Tracked> = match acc {
                            Acc::GetMut => b.get_mut(p),
                            Acc::NthFrontMut => b.nth_front_mut(p),
                            Acc::NthBackMut => b.nth_back_mut(p),
                            Acc::FrontMut => b.front_mut(),
                            Acc::BackMut => b.back_mut(),
                            Acc::IndexMut => {
                                *spare = new;
                                let r = b.index_mut(p);
                                let a = addr(r);
                                return match spare.take() {
                                    Some(nw) => (Some(a), Some(std::mem::replace(r, nw))),
                                    None => {
                                        r.set_val(newv);
                                        (Some(a), None)
                                    }
                                };
                            }
                            Acc::IterMut => b.iter_mut().nth(p),
                            Acc::IterMutRev => b.iter_mut().rev().nth(p),
                            Acc::RangeMut => {
                                *spare = new;
                                let mut it = b.range_mut(crate::deq::RangeArg {
                                    start: Bound::Included(p),
                                    end: Bound::Excluded(p.wrapping_add(1)),
                                    native: p % 2 == 0,
                                });
                                let r = it.next();
                                return match r {
                                    None => (None, None),
                                    Some(r) => {
                                        let a = addr(r);
                                        match spare.take() {
                                            Some(nw) => (Some(a), Some(std::mem::replace(r, nw))),
                                            None => {
                                                r.set_val(newv);
                                                (Some(a), None)
                                            }
                                        }
                                    }
                                };
                            }
                            Acc::MutSlices => {
                                let (s1, s2) = b.as_mut_slices();
                                let l1 = s1.len();
                                if p < l1 {
                                    s1.get_mut(p)
                                } else {
                                    s2.get_mut(p - l1)
                                }
                            }
                            Acc::MakeContiguous => b.make_contiguous().get_mut(p),
                            Acc::IterMutMax => b.iter_mut().max(),
                            Acc::IterMutMin => b.iter_mut().min(),
                        };
                        match r {
                            None => {
                                *spare = new;
                                (None, None)
                            }
                            Some(r) => {
                                let a = addr(r);
                                match new {
                                    Some(nw) => (Some(a), Some(std::mem::replace(r, nw))),
                                    None => {
                                        r.set_val(newv);
                                        (Some(a), None)
                                    }
                                }
                            }
                        }
                    })
                };
                // an element that never entered the buffer goes back to the harness
                if let Some(t) = spare.take() {
                    let id = t.raw_id();
                    drop(t);
                    self.dead_ids.push(id);
                }
                match r {
                    Called::Panic(m) => {
                        if must_panic {
                            self.flags |= fl::DOC_PANIC;
                            self.dig(0xDEAD);
                            return Ok(Flow::Done);
                        }
                        Err(format!("unexpected panic: {m}"))
                    }
                    Called::Injected => Ok(Flow::Injected),
                    Called::Ok((got_addr, old)) => {
                        let old_id = match old {
                            Some(t) => Some(self.hold(t)?),
                            None => None,
                        };
                        if must_panic {
                            return Err(format!("{acc:?} at position {p} with length {len} did not panic"));
                        }
                        match (target, got_addr) {
                            (None, None) => {}
                            (None, Some(a)) => return Err(format!("{acc:?}({p}) returned an element at {a:#x} although the position is outside the contents (len {len})")),
                            (Some(t), None) => return Err(format!("{acc:?}({p}) returned nothing, expected position {t}")),
                            (Some(t), Some(a)) => {
                                if acc != Acc::MakeContiguous && a != self.last_obs[t].addr {
                                    return Err(format!(
                                        "{acc:?}({p}) addresses {a:#x}, but position {t} lives at {:#x}",
                                        self.last_obs[t].addr
                                    ));
                                }
                                if set {
                                    if old_id != Some(self.model[t].0) {
                                        return Err(format!("{acc:?}({p}) gave access to element id {:?}, expected id {}", old_id, self.model[t].0));
                                    }
                                    self.model[t] = (newid.unwrap(), newv);
                                } else {
                                    self.model[t].1 = newv;
                                }
                                self.flags |= fl::READ_OR_MOVED;
                            }
                        }
                        Ok(Flow::Done)
                    }
                }
            }
            Op::Read(idx) => {
                let p = idx.resolve(len);
                if p.saturating_add(1) >= len {
                    self.flags |= fl::BOUNDARY_ARG;
                }
                let obs = self.last_obs.clone();
                let exp = obs.get(p).copied();
                let r = cc!(self.call(move |b| -> R<()> {
                    let e = exp.as_ref();
                    check_ref("get", b.get(p), e)?;
                    check_ref("nth_front", b.nth_front(p), e)?;
                    let eb = if p < len { obs.get(len - 1 - p) } else { None };
                    check_ref("nth_back", b.nth_back(p), eb)?;
                    check_ref("iter().nth", b.iter().nth(p), e)?;
                    check_ref("iter().rev().nth", b.iter().rev().nth(p), eb)?;
                    let (s1, s2) = b.as_slices();
                    let g = if p < s1.len() { s1.get(p) } else { s2.get(p - s1.len()) };
                    check_ref("as_slices", g, e)?;
                    if p < len {
                        for native in [true, false] {
                            let mut it = b.range(crate::deq::RangeArg { start: Bound::Included(p), end: Bound::Included(p), native });
                            check_ref("range(p..=p).next()", it.next(), e)?;
                            check_ref("range(p..=p) second next()", it.next(), None)?;
                            let mut it = b.range(crate::deq::RangeArg { start: Bound::Included(p), end: Bound::Excluded(p + 1), native });
                            check_ref("range(p..p+1).next_back()", it.next_back(), e)?;
                            check_ref("range(p..p+1) second next_back()", it.next_back(), None)?;
                        }
                        check_ref("index", Some(b.index(p)), e)?;
                        // consuming accessors of sub-ranges that end / start at p
                        for native in [true, false] {
                            check_ref("range(..=p).last()", b.range(crate::deq::RangeArg { start: Bound::Unbounded, end: Bound::Included(p), native }).last(), e)?;
                            check_ref("range(p..).rev().last()", b.range(crate::deq::RangeArg { start: Bound::Included(p), end: Bound::Unbounded, native }).rev().last(), e)?;
                            check_ref("range(p..).last()", b.range(crate::deq::RangeArg { start: Bound::Included(p), end: Bound::Unbounded, native }).last(), obs.last())?;
                            let c = b.range(crate::deq::RangeArg { start: Bound::Included(p), end: Bound::Unbounded, native }).count();
                            if c != len - p {
                                return Err(format!("range({p}..).count() = {c}, expected {}", len - p));
                            }
                        }
                        let a = b.range_mut(crate::deq::RangeArg { start: Bound::Unbounded, end: Bound::Included(p), native: true }).last().map(|t| addr(t));
                        if a != e.map(|o| o.addr) {
                            return Err(format!("range_mut(..={p}).last() addresses {:?}, expected {:?}", a, e.map(|o| o.addr)));
                        }
                    }
                    if p == 0 {
                        check_ref("front", b.front(), e)?;
                    }
                    if p.wrapping_add(1) == len {
                        check_ref("back", b.back(), e)?;
                    }
                    Ok(())
                }));
                r?;
                if p >= len {
                    match self.call(move |b| {
                        let _ = b.index(p);
                    }) {
                        Called::Panic(_) => {
                            self.flags |= fl::DOC_PANIC;
                        }
                        Called::Ok(()) => return Err(format!("buf[{p}] with length {len} did not panic")),
                        Called::Injected => return Ok(Flow::Injected),
                    }
                }
                if p < len {
                    self.flags |= fl::READ_OR_MOVED;
                }
                Ok(Flow::Done)
            }
            Op::Views => {
                let obs = self.last_obs.clone();
                let vals: Vec<u32> = obs.iter().map(|o| o.val).collect();
                let ids_before = ledger::n_ids();
                let r = cc!(self.call(move |b| -> R<Vec<Tracked>> {
                    let seq = |what: &str, it: &mut dyn Iterator<Item = &Tracked>| -> R<()> {
                        let mut k = 0;
                        for t in it {
                            check_ref(what, Some(t), Some(obs.get(k).ok_or_else(|| format!("{what} yields more than {} elements", obs.len()))?))?;
                            k += 1;
                        }
                        if k != obs.len() {
                            return Err(format!("{what} yields {k} elements, expected {}", obs.len()));
                        }
                        Ok(())
                    };
                    seq("iter()", &mut b.iter())?;
                    seq("(&buf).into_iter()", &mut b.ref_into_iter())?;
                    seq("range(..)", &mut b.range(crate::deq::RangeArg { start: Bound::Unbounded, end: Bound::Unbounded, native: true }))?;
                    seq("range((Unbounded,Unbounded))", &mut b.range(crate::deq::RangeArg { start: Bound::Unbounded, end: Bound::Unbounded, native: false }))?;
                    let (s1, s2) = b.as_slices();
                    seq("as_slices()", &mut s1.iter().chain(s2.iter()))?;
                    let mut rev: Vec<&Tracked> = b.iter().rev().collect();
                    rev.reverse();
                    seq("iter().rev()", &mut rev.into_iter())?;
                    // the consuming accessors of the iterators (provided methods an implementation may override)
                    check_ref("iter().last()", b.iter().last(), obs.last())?;
                    check_ref("iter().rev().last()", b.iter().rev().last(), obs.first())?;
                    check_ref("(&buf).into_iter().last()", b.ref_into_iter().last(), obs.last())?;
                    if b.iter().count() != obs.len() || b.iter().rev().count() != obs.len() {
                        return Err(format!("iter().count() = {}, expected {}", b.iter().count(), obs.len()));
                    }
                    // zip with random-access partners (std specialises this on nightly through an unstable hook an iterator
                    // may implement): a range, a slice iterator, behind the forwarding adaptors, from both ends, with nth
                    {
                        let idx: Vec<usize> = (0..obs.len()).collect();
                        let chk_pairs = |what: &str, got: Vec<(usize, usize)>, want: Vec<(usize, usize)>| -> R<()> {
                            if got != want {
                                return Err(format!("{what} pairs the positions {:?} (address order of the contents, partner index), expected {:?}", got, want));
                            }
                            Ok(())
                        };
                        let pos_of = |t: &Tracked| obs.iter().position(|o| o.addr == addr(t)).unwrap_or(usize::MAX);
                        let straight: Vec<(usize, usize)> = idx.iter().map(|i| (*i, *i)).collect();
                        chk_pairs("iter().zip(0..len)", b.iter().zip(0..obs.len()).map(|(t, i)| (pos_of(t), i)).collect(), straight.clone())?;
                        chk_pairs("iter().zip(slice.iter())", b.iter().zip(idx.iter()).map(|(t, i)| (pos_of(t), *i)).collect(), straight.clone())?;
                        chk_pairs("(0..len).zip(iter())", (0..obs.len()).zip(b.iter()).map(|(i, t)| (pos_of(t), i)).collect(), straight.clone())?;
                        chk_pairs("iter().map(id).enumerate().zip(0..len)", b.iter().map(|t| t).enumerate().zip(0..obs.len()).map(|((k, t), i)| (pos_of(t), i + k - k)).collect(), straight.clone())?;
                        chk_pairs("iter().fuse().zip(0..len)", b.iter().fuse().zip(0..obs.len()).map(|(t, i)| (pos_of(t), i)).collect(), straight.clone())?;
                        let mut back: Vec<(usize, usize)> = b.iter().zip(0..obs.len()).rev().map(|(t, i)| (pos_of(t), i)).collect();
                        back.reverse();
                        chk_pairs("iter().zip(0..len).rev()", back, straight.clone())?;
                        if obs.len() > 1 {
                            chk_pairs("iter().skip(1).zip(0..)", b.iter().skip(1).zip(0..obs.len()).map(|(t, i)| (pos_of(t), i)).collect(), idx[1..].iter().map(|i| (*i, *i - 1)).collect())?;
                            let g = b.iter().zip(0..obs.len()).nth(obs.len() - 1).map(|(t, i)| (pos_of(t), i));
                            if g != Some((obs.len() - 1, obs.len() - 1)) {
                                return Err(format!("iter().zip(0..len).nth(len - 1) gave {:?}", g));
                            }
                        }
                        chk_pairs("range(..).zip(0..len)", b.range(crate::deq::RangeArg { start: Bound::Unbounded, end: Bound::Unbounded, native: true }).zip(0..obs.len()).map(|(t, i)| (pos_of(t), i)).collect(), straight.clone())?;
                        let zm: Vec<(usize, usize)> = b.iter_mut().zip(0..obs.len()).map(|(t, i)| (obs.iter().position(|o| o.addr == addr(t)).unwrap_or(usize::MAX), i)).collect();
                        chk_pairs("iter_mut().zip(0..len)", zm, straight)?;
                    }
                    // consumers that are generic over the accumulator: an order-sensitive `Sum` / `Product`, `partition`, `reduce`
                    {
                        let want: Vec<usize> = obs.iter().map(|o| o.addr).collect();
                        let rwant: Vec<usize> = want.iter().rev().copied().collect();
                        let full = || crate::deq::RangeArg { start: Bound::Unbounded, end: Bound::Unbounded, native: true };
                        for (what, got, want) in [
                            ("iter().sum()", b.iter().sum::<Order>().0, &want),
                            ("iter().product()", b.iter().product::<Order>().0, &want),
                            ("iter().rev().sum()", b.iter().rev().sum::<Order>().0, &rwant),
                            ("iter().rev().product()", b.iter().rev().product::<Order>().0, &rwant),
                            ("range(..).sum()", b.range(full()).sum::<Order>().0, &want),
                            ("range(..).product()", b.range(full()).product::<Order>().0, &want),
                            ("iter_mut().sum()", b.iter_mut().map(|t| &*t).sum::<Order>().0, &want),
                        ] {
                            if &got != want {
                                return Err(format!("{what} hands the accumulator the elements at {:x?}, expected {:x?} (positions 0..len in order)", got, want));
                            }
                        }
                        let (ev, od): (Vec<&Tracked>, Vec<&Tracked>) = b.iter().partition(|t| obs.iter().position(|o| o.addr == addr(t)).unwrap_or(0) % 2 == 0);
                        let evw: Vec<usize> = want.iter().step_by(2).copied().collect();
                        let odw: Vec<usize> = want.iter().skip(1).step_by(2).copied().collect();
                        if ev.iter().map(|t| addr(t)).collect::<Vec<_>>() != evw || od.iter().map(|t| addr(t)).collect::<Vec<_>>() != odw {
                            return Err("iter().partition(even position) does not split the sequence in order".to_string());
                        }
                        check_ref("iter().reduce(first)", b.iter().reduce(|a, _| a), obs.first())?;
                        check_ref("iter().reduce(last)", b.iter().reduce(|_, x| x), obs.last())?;
                        check_ref("iter().rev().reduce(last)", b.iter().rev().reduce(|_, x| x), obs.first())?;
                    }
                    // value-dependent consumers (ties between equal elements are decided by position)
                    let want_max = (0..obs.len()).max_by_key(|k| obs[*k].val).map(|k| &obs[k]);
                    let want_min = (0..obs.len()).min_by_key(|k| obs[*k].val).map(|k| &obs[k]);
                    let want_rmax = (0..obs.len()).rev().max_by_key(|k| obs[*k].val).map(|k| &obs[k]);
                    check_ref("iter().max()", b.iter().max(), want_max)?;
                    check_ref("iter().min()", b.iter().min(), want_min)?;
                    check_ref("iter().rev().max()", b.iter().rev().max(), want_rmax)?;
                    check_ref("range(..).max()", b.range(crate::deq::RangeArg { start: Bound::Unbounded, end: Bound::Unbounded, native: true }).max(), want_max)?;
                    check_ref("iter().max_by(cmp)", b.iter().max_by(|x, y| x.cmp(y)), want_max)?;
                    check_ref("iter().min_by(cmp)", b.iter().min_by(|x, y| x.cmp(y)), want_min)?;
                    let sorted = obs.windows(2).all(|w| w[0].val <= w[1].val);
                    if b.iter().is_sorted() != sorted || b.iter().is_sorted_by(|x, y| x <= y) != sorted || b.iter().rev().is_sorted() != obs.windows(2).all(|w| w[0].val >= w[1].val) {
                        return Err(format!("iter().is_sorted() = {} for values {:?}", b.iter().is_sorted(), obs.iter().map(|o| o.val).collect::<Vec<_>>()));
                    }
                    if !b.iter().eq(b.iter()) || b.iter().cmp(b.iter()) != std::cmp::Ordering::Equal || b.iter().lt(b.iter()) || !b.iter().le(b.iter()) || b.iter().ne(b.iter()) {
                        return Err("iter() compared with itself through Iterator::eq / cmp / lt / le / ne is not equal".to_string());
                    }
                    let ma = b.iter_mut().max().map(|t| addr(t));
                    let mi = b.iter_mut().min().map(|t| addr(t));
                    if ma != want_max.map(|o| o.addr) || mi != want_min.map(|o| o.addr) {
                        return Err(format!("iter_mut().max() / min() address {:?} / {:?}, expected {:?} / {:?}", ma, mi, want_max.map(|o| o.addr), want_min.map(|o| o.addr)));
                    }
                    let la = b.iter_mut().last().map(|t| addr(t));
                    let fa = b.iter_mut().rev().last().map(|t| addr(t));
                    if la != obs.last().map(|o| o.addr) || fa != obs.first().map(|o| o.addr) || b.iter_mut().count() != obs.len() {
                        return Err(format!(
                            "iter_mut().last() / iter_mut().rev().last() address {:?} / {:?}, expected {:?} / {:?}",
                            la, fa, obs.last().map(|o| o.addr), obs.first().map(|o| o.addr)
                        ));
                    }
                    for alt in [false, true] {
                        let want = if alt { format!("{:#?}", vals) } else { format!("{:?}", vals) };
                        let got = b.debug_string(alt);
                        if got != want {
                            return Err(format!("Debug output is {got:?}, expected {want:?}"));
                        }
                    }
                    Ok(b.to_vec())
                }));
                let v = r?;
                let mut err = None;
                if v.len() != len {
                    err = Some(format!("to_vec() has {} elements, expected {len}", v.len()));
                } else {
                    for (k, t) in v.iter().enumerate() {
                        let ok = t.peek_id().ok().and_then(ledger::slot).map(|s| s.origin == self.model[k].0 && s.val == self.model[k].1).unwrap_or(false);
                        if !ok || t.raw_id() <= ids_before {
                            err = Some(format!("to_vec()[{k}] is not a fresh clone of position {k}"));
                            break;
                        }
                    }
                }
                self.dead_ids.extend(v.iter().map(|t| t.raw_id()));
                drop(v);
                if let Some(e) = err {
                    return Err(e);
                }
                if len > 0 {
                    self.flags |= fl::READ_OR_MOVED;
                }
                Ok(Flow::Done)
            }
            Op::ToVec => {
                let ids_before = ledger::n_ids();
                let v = cc!(self.call(|b| b.to_vec()));
                let mut err = None;
                if v.len() != len {
                    err = Some(format!("to_vec() has {} elements, expected {len}", v.len()));
                } else {
                    for (k, t) in v.iter().enumerate() {
                        let ok = t.peek_id().ok().and_then(ledger::slot).map(|s| s.origin == self.model[k].0 && s.val == self.model[k].1).unwrap_or(false);
                        if !ok || t.raw_id() <= ids_before {
                            err = Some(format!("to_vec()[{k}] is not a fresh clone of position {k}"));
                            break;
                        }
                    }
                }
                self.dead_ids.extend(v.iter().map(|t| t.raw_id()));
                drop(v);
                if let Some(e) = err {
                    return Err(e);
                }
                self.flags |= fl::READ_OR_MOVED;
                Ok(Flow::Done)
            }
            Op::Dbg(alt) => {
                let alt = *alt;
                let vals: Vec<u32> = self.model.iter().map(|m| m.1).collect();
                let got = cc!(self.call(move |b| b.debug_string(alt)));
                let want = if alt { format!("{:#?}", vals) } else { format!("{:?}", vals) };
                if got != want {
                    return Err(format!("Debug output is {got:?}, expected {want:?}"));
                }
                self.flags |= fl::READ_OR_MOVED;
                Ok(Flow::Done)
            }
            Op::CloneBuf(keep) => {
                let ids_before = ledger::n_ids();
                let c = cc!(self.call(|b| b.clone_box()));
                let cobs = Self::observe_buf(&*c, n).map_err(|e| format!("the clone: {e}"))?;
                if cobs.len() != len {
                    return Err(format!("the clone has {} elements, the source {len}", cobs.len()));
                }
                for (k, o) in cobs.iter().enumerate() {
                    let s = ledger::slot(o.id).ok_or("unknown id")?;
                    if o.id <= ids_before || s.origin != self.model[k].0 || o.val != self.model[k].1 {
                        return Err(format!("clone position {k}: id {} origin {} val {}, expected a fresh clone of id {}", o.id, s.origin, o.val, self.model[k].0));
                    }
                }
                if *keep {
                    let old = self.buf.replace(c).unwrap();
                    let old_ids = self.model_ids();
                    drop(old);
                    self.dead_ids.extend(old_ids);
                    self.model = cobs.iter().map(|o| (o.id, o.val)).collect();
                    // dropping the source must not affect the clone
                    for (id, _) in &self.model {
                        if !ledger::is_alive(*id) {
                            return Err(format!("dropping the source destroyed element id={id} of the clone"));
                        }
                    }
                } else {
                    self.dead_ids.extend(cobs.iter().map(|o| o.id));
                    drop(c);
                }
                self.flags |= fl::READ_OR_MOVED;
                Ok(Flow::Done)
            }
            Op::Cmp(s, l, differ) => {
                let l = (*l as usize).min(n);
                let mine: Vec<u32> = self.model.iter().map(|m| m.1).collect();
                let mut ov: Vec<u32> = (0..l).map(|i| if i < len { mine[i] } else { 5000 + i as u32 }).collect();
                if let Some(d) = differ {
                    let p = d.resolve(len);
                    if p < ov.len() {
                        if self.rnd() & 1 == 0 {
                            ov[p] += 1
                        } else {
                            ov[p] -= 1
                        }
                    }
                }
                let route = ALL_ROUTES[(self.rnd() % 4) as usize];
                let (other, oids) = self.build(n, Ctor::New, route, *s as usize, &ov)?;
                self.allowed.extend(&oids);
                let exp_eq = mine == ov;
                let exp_ord = lex(&mine, &ov);
                let mut res: R<Flow> = Ok(Flow::Done);
                'calls: {
                    let o = &*other;
                    macro_rules! c2 {
                        ($e:expr) => {
                            match $e {
                                Called::Ok(v) => v,
                                Called::Injected => {
                                    res = Ok(Flow::Injected);
                                    break 'calls;
                                }
                                Called::Panic(m) => {
                                    res = Err(format!("unexpected panic: {m}"));
                                    break 'calls;
                                }
                            }
                        };
                    }
                    let eq = c2!(self.call(move |b| b.eq_dyn(o)));
                    if eq != exp_eq {
                        res = Err(format!("== returned {eq}, values {:?} vs {:?}", mine, ov));
                        break 'calls;
                    }
                    let pc = c2!(self.call(move |b| b.partial_cmp_dyn(o)));
                    if pc != Some(exp_ord) {
                        res = Err(format!("partial_cmp returned {:?}, expected {:?} for {:?} vs {:?}", pc, exp_ord, mine, ov));
                        break 'calls;
                    }
                    let c = c2!(self.call(move |b| b.cmp_dyn(o)));
                    if c != exp_ord {
                        res = Err(format!("cmp returned {:?}, expected {:?} for {:?} vs {:?}", c, exp_ord, mine, ov));
                        break 'calls;
                    }
                    let h1 = c2!(self.call(move |b| b.hash_u64()));
                    let h2 = o.hash_u64();
                    if exp_eq && h1 != h2 {
                        res = Err(format!("equal buffers hash differently ({h1:#x} vs {h2:#x}), values {:?}", mine));
                        break 'calls;
                    }
                    self.dig(exp_eq as u64 + 2 * (exp_ord as i8 + 1) as u64);
                    self.dig((h1 == h2) as u64);
                }
                let oobs = Self::observe_buf(&*other, n).map_err(|e| format!("the other buffer after comparing: {e}"));
                drop(other);
                self.dead_ids.extend(oids);
                oobs?;
                if len > 0 {
                    self.flags |= fl::READ_OR_MOVED;
                }
                res
            }
            Op::CmpCap(m, s, l, differ) => {
                let m = (*m as usize).min(8);
                let l = (*l as usize).min(m);
                let mine: Vec<u32> = self.model.iter().map(|x| x.1).collect();
                let mut ov: Vec<u32> = (0..l).map(|i| if i < len { mine[i] } else { 5000 + i as u32 }).collect();
                if let Some(d) = differ {
                    let p = d.resolve(len);
                    if p < ov.len() {
                        if self.rnd() & 1 == 0 {
                            ov[p] += 1
                        } else {
                            ov[p] -= 1
                        }
                    }
                }
                let route = ALL_ROUTES[(self.rnd() % 4) as usize];
                let (other, oids) = self.build(m, Ctor::New, route, *s as usize, &ov)?;
                self.allowed.extend(&oids);
                let exp_eq = mine == ov;
                let exp_ord = lex(&mine, &ov);
                let o = &*other;
                let r1 = self.call(move |b| (b.eq_any(o), b.partial_cmp_any(o)));
                let r2 = {
                    // and the other way round, with our buffer on the right-hand side
                    let me = self.b();
                    std::panic::catch_unwind(std::panic::AssertUnwindSafe(|| if n <= 8 { Some((o.eq_any(me), o.partial_cmp_any(me))) } else { None }))
                };
                let oobs = Self::observe_buf(&*other, m).map_err(|e| format!("the other buffer after comparing: {e}"));
                drop(other);
                self.dead_ids.extend(oids);
                oobs?;
                let (eq, pc) = cc!(r1);
                if eq != exp_eq || pc != Some(exp_ord) {
                    return Err(format!("comparison with a buffer of capacity {m}: == gave {eq}, partial_cmp gave {:?}; sequences {:?} vs {:?}", pc, mine, ov));
                }
                match r2 {
                    Ok(Some((eq2, pc2))) => {
                        if eq2 != exp_eq || pc2 != Some(exp_ord.reverse()) {
                            return Err(format!("comparison (capacity {m} buffer on the left): == gave {eq2}, partial_cmp gave {:?}; sequences {:?} vs {:?}", pc2, ov, mine));
                        }
                    }
                    Ok(None) => {}
                    Err(p) => return Err(format!("unexpected panic: {}", panic_msg(&p))),
                }
                self.dig(exp_eq as u64 + 2 * (exp_ord as i8 + 1) as u64);
                if len > 0 {
                    self.flags |= fl::READ_OR_MOVED;
                }
                Ok(Flow::Done)
            }
            Op::EqSlice(differ) => {
                let mine: Vec<u32> = self.model.iter().map(|m| m.1).collect();
                let mut ov = mine.clone();
                if let Some(d) = differ {
                    match d {
                        Idx::Past(k) => {
                            for i in 0..*k {
                                ov.push(6000 + i);
                            }
                        }
                        _ => {
                            let p = d.resolve(len);
                            if p < ov.len() {
                                ov[p] += 1;
                            } else if !ov.is_empty() {
                                ov.pop();
                            }
                        }
                    }
                }
                let sl: Vec<Tracked> = ov.iter().map(|v| Tracked::new(*v)).collect();
                let sids: Vec<u32> = sl.iter().map(|t| t.raw_id()).collect();
                self.allowed.extend(&sids);
                let r = {
                    let s = &sl[..];
                    self.call(move |b| b.eq_slice(s))
                };
                let eq = match r {
                    Called::Ok(v) => v,
                    Called::Injected => {
                        drop(sl);
                        self.dead_ids.extend(sids);
                        return Ok(Flow::Injected);
                    }
                    Called::Panic(m) => {
                        drop(sl);
                        self.dead_ids.extend(sids);
                        return Err(format!("unexpected panic: {m}"));
                    }
                };
                // the other partner types (slices behind references, arrays); the vector comes back for destruction
                let mut back: Option<Vec<Tracked>> = None;
                let r2 = {
                    let slot = &mut back;
                    self.call(move |b| {
                        let (res, v) = b.eq_partners(sl);
                        *slot = Some(v);
                        res
                    })
                };
                drop(back);
                self.dead_ids.extend(sids);
                let partners = cc!(r2);
                if eq != (mine == ov) {
                    return Err(format!("buffer == slice returned {eq}, values {:?} vs {:?}", mine, ov));
                }
                for (what, got) in partners {
                    if got != (mine == ov) {
                        return Err(format!("buffer == {what} returned {got}, values {:?} vs {:?}", mine, ov));
                    }
                }
                self.dig(eq as u64);
                if len > 0 {
                    self.flags |= fl::READ_OR_MOVED;
                }
                Ok(Flow::Done)
            }
            Op::IterScript(kind, script) => self.iter_script(*kind, script),
            Op::IntoIter(script) => self.into_iter_script(script),
            Op::FromArray(m) => {
                let m = *m as usize;
                if (n > FROM_ARRAY_MAX_N || m > FROM_ARRAY_MAX_M) && !crate::deq::FROM_ARRAY_BIG_PAIRS.contains(&(n, m)) {
                    self.flags |= fl::SKIPPED;
                    return Ok(Flow::Done);
                }
                let old = self.buf.take().unwrap();
                let old_ids = self.model_ids();
                drop(old);
                self.dead_ids.extend(old_ids);
                self.model.clear();
                let items: Vec<Tracked> = (0..m).map(|_| self.mk()).collect();
                let ids: Vec<(u32, u32)> = items.iter().map(|t| (t.raw_id(), t.val())).collect();
                if m > 0 {
                    self.flags |= fl::M_NONZERO;
                }
                match self.call_free(move || from_array::<Tracked>(n, items)) {
                    Called::Ok(b) => {
                        self.buf = Some(b);
                        let keep = m.min(n);
                        self.model = ids[m - keep..].to_vec();
                        self.dead_ids.extend(ids[..m - keep].iter().map(|x| x.0));
                        Ok(Flow::Done)
                    }
                    Called::Injected => {
                        if self.opts.strict_ctor {
                            // nothing was returned: every element of the array has to be dead by now, each destroyed once
                            // (a second destruction is an event of the ledger)
                            if let Some((id, _)) = ids.iter().find(|(id, _)| ledger::is_alive(*id)) {
                                return Err(format!(
                                    "conversion from an array of {m} elements: a destructor of a discarded element panicked and element id={id} was never destroyed (the rest is to be destroyed exactly once)"
                                ));
                            }
                        }
                        self.fresh_buf();
                        Ok(Flow::Injected)
                    }
                    Called::Panic(msg) => {
                        self.fresh_buf();
                        Err(format!("unexpected panic: {msg}"))
                    }
                }
            }
            Op::FromIter(m, hint) | Op::Unzip(m, hint) => {
                let unzip = matches!(op, Op::Unzip(..));
                let old = self.buf.take().unwrap();
                let old_ids = self.model_ids();
                drop(old);
                self.dead_ids.extend(old_ids);
                self.model.clear();
                if *m > 0 {
                    self.flags |= fl::M_NONZERO;
                }
                let mut it = GenIter::new(*m, self.next_val, *hint);
                let r = {
                    let it = &mut it;
                    self.call_free(move || if unzip { unzip_dyn::<Tracked>(n, it) } else { from_iter_dyn::<Tracked>(n, it) })
                };
                self.next_val = it.next_val;
                match r {
                    Called::Ok(b) => {
                        self.buf = Some(b);
                        if !it.extra.is_empty() {
                            return Err(format!(
                                "from_iter polled the iterator again after it had returned None and took {} further element(s) out of it (the iterator is not fused)",
                                it.extra.len()
                            ));
                        }
                        if it.left != 0 {
                            return Err(format!("from_iter stopped early: {} elements not pulled", it.left));
                        }
                        let made: Vec<(u32, u32)> = it.made.iter().map(|id| (*id, ledger::slot(*id).unwrap().val)).collect();
                        let keep = made.len().min(n);
                        self.model = made[made.len() - keep..].to_vec();
                        Ok(Flow::Done)
                    }
                    Called::Injected => {
                        self.fresh_buf();
                        Ok(Flow::Injected)
                    }
                    Called::Panic(msg) => {
                        self.fresh_buf();
                        Err(format!("unexpected panic: {msg}"))
                    }
                }
            }
            _ => unreachable!("op handled elsewhere"),
        }
    }
}

/// An accumulator for `Iterator::sum` / `product` that records the order in which it is handed the elements.
struct Order(Vec<usize>);

impl<'a> std::iter::Sum<&'a Tracked> for Order {
    fn sum<I: Iterator<Item = &'a Tracked>>(it: I) -> Self {
        Order(it.map(|t| t as *const Tracked as usize).collect())
    }
}

impl<'a> std::iter::Product<&'a Tracked> for Order {
    fn product<I: Iterator<Item = &'a Tracked>>(it: I) -> Self {
        Order(it.map(|t| t as *const Tracked as usize).collect())
    }
}
