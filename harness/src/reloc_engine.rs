//! C20 over plain element types of several sizes (1, 2, 3, 4, 8, 24 bytes): the interpreter counts relocations for
//! its 16-byte tracked element only, and "moving things is cheap for bytes" is a natural size-gated optimisation.
//! Elements carry unique values, so a survivor is recognised by value and its address compared before and after
//! every operation of the documented constant-time / bounded-move table, from every layout.

use circular_buffer::CircularBuffer;
use serde::{Deserialize, Serialize};

pub trait El: Copy + PartialEq + core::fmt::Debug + 'static {
    const NAME: &'static str;
    fn mk(i: usize) -> Self;
}
impl El for u8 {
    const NAME: &'static str = "u8";
    fn mk(i: usize) -> Self {
        i as u8
    }
}
impl El for i8 {
    const NAME: &'static str = "i8";
    fn mk(i: usize) -> Self {
        i as u8 as i8
    }
}
impl El for u16 {
    const NAME: &'static str = "u16";
    fn mk(i: usize) -> Self {
        i as u16
    }
}
impl El for [u8; 3] {
    const NAME: &'static str = "[u8; 3]";
    fn mk(i: usize) -> Self {
        [i as u8, (i >> 8) as u8, 0x77]
    }
}
impl El for u32 {
    const NAME: &'static str = "u32";
    fn mk(i: usize) -> Self {
        i as u32
    }
}
impl El for u64 {
    const NAME: &'static str = "u64";
    fn mk(i: usize) -> Self {
        i as u64
    }
}
impl El for [u64; 3] {
    const NAME: &'static str = "[u64; 3]";
    fn mk(i: usize) -> Self {
        [i as u64, 1, 2]
    }
}

/// One page, page-aligned.
#[derive(Clone, Copy, PartialEq)]
#[repr(align(4096))]
pub struct Page([u64; 512]);
impl core::fmt::Debug for Page {
    fn fmt(&self, f: &mut core::fmt::Formatter<'_>) -> core::fmt::Result {
        write!(f, "Page({})", self.0[0])
    }
}
impl El for Page {
    const NAME: &'static str = "Page (4096 bytes, align 4096)";
    fn mk(i: usize) -> Self {
        let mut p = Page([0x33; 512]);
        p.0[0] = i as u64;
        p.0[511] = !(i as u64);
        p
    }
}

#[derive(Debug, Clone, Copy, PartialEq, Eq, Hash, Serialize, Deserialize)]
pub enum ROp {
    PushBack,
    PushFront,
    TryPushBack,
    TryPushFront,
    PopBack,
    PopFront,
    Swap(u16, u16),
    SwapRemoveBack(u16),
    SwapRemoveFront(u16),
    TruncateBack(u16),
    TruncateFront(u16),
    Clear,
    Remove(u16),
    Drain(u16, u16),
    MakeContiguous,
    Access(u16),
}

#[derive(Debug, Clone, PartialEq, Eq, Hash, Serialize, Deserialize)]
pub struct RCase {
    pub ty: u8,
    pub n: u16,
    pub start: u16,
    pub len: u16,
    pub ops: Vec<ROp>,
}

fn addrs<const N: usize, E: El>(b: &CircularBuffer<N, E>) -> Vec<(E, usize)> {
    b.iter().map(|e| (*e, e as *const E as usize)).collect()
}

fn run_n<const N: usize, E: El>(c: &RCase) -> Result<bool, String> {
    let mut b = CircularBuffer::<N, E>::new();
    let mut next = 1usize;
    if N > 0 {
        for _ in 0..(c.start as usize % N) {
            b.push_back(E::mk(0));
            b.pop_front();
        }
        for _ in 0..(c.len as usize).min(N) {
            b.push_back(E::mk(next));
            next += 1;
        }
    }
    let mut model: Vec<E> = b.iter().copied().collect();
    let mut nontrivial = false;
    for (i, op) in c.ops.iter().enumerate() {
        let before = addrs(&b);
        let len = model.len();
        let pos = |k: u16| (k as usize * (len + 2)) >> 16;
        // Some(bound) = documented limit on survivors that may change address
        let bound: Option<usize> = match *op {
            ROp::PushBack | ROp::PushFront => {
                let v = E::mk(next);
                next += 1;
                if matches!(op, ROp::PushBack) {
                    let ev = b.push_back(v);
                    if N == 0 {
                        if ev != Some(v) {
                            return Err(format!("op #{i} {op:?}: capacity 0 must hand the element back"));
                        }
                    } else {
                        let want = if len == N { Some(model.remove(0)) } else { None };
                        if ev != want {
                            return Err(format!("op #{i} {op:?}: returned {:?}, expected {:?}", ev, want));
                        }
                        model.push(v);
                    }
                } else {
                    let ev = b.push_front(v);
                    if N == 0 {
                        if ev != Some(v) {
                            return Err(format!("op #{i} {op:?}: capacity 0 must hand the element back"));
                        }
                    } else {
                        let want = if len == N { model.pop() } else { None };
                        if ev != want {
                            return Err(format!("op #{i} {op:?}: returned {:?}, expected {:?}", ev, want));
                        }
                        model.insert(0, v);
                    }
                }
                Some(2)
            }
            ROp::TryPushBack | ROp::TryPushFront => {
                let v = E::mk(next);
                next += 1;
                let r = if matches!(op, ROp::TryPushBack) { b.try_push_back(v) } else { b.try_push_front(v) };
                if r.is_err() != (len == N) {
                    return Err(format!("op #{i} {op:?}: returned {:?} at length {len} of {N}", r));
                }
                if r.is_ok() {
                    if matches!(op, ROp::TryPushBack) {
                        model.push(v)
                    } else {
                        model.insert(0, v)
                    }
                }
                Some(2)
            }
            ROp::PopBack => {
                if b.pop_back() != model.pop() {
                    return Err(format!("op #{i} {op:?}: wrong element"));
                }
                Some(2)
            }
            ROp::PopFront => {
                let want = if len > 0 { Some(model.remove(0)) } else { None };
                if b.pop_front() != want {
                    return Err(format!("op #{i} {op:?}: wrong element"));
                }
                Some(2)
            }
            ROp::Swap(x, y) => {
                if len > 0 {
                    let (p, q) = (pos(x) % len, pos(y) % len);
                    b.swap(p, q);
                    model.swap(p, q);
                }
                // the two swapped values change places: by value, two "survivors" have new addresses
                Some(2)
            }
            ROp::SwapRemoveBack(k) => {
                let p = pos(k);
                let want = if p < len { Some(model.swap_remove(p)) } else { None };
                if b.swap_remove_back(p) != want {
                    return Err(format!("op #{i} {op:?}: wrong element"));
                }
                Some(2)
            }
            ROp::SwapRemoveFront(k) => {
                let p = pos(k);
                let want = if p < len {
                    model.swap(0, p);
                    Some(model.remove(0))
                } else {
                    None
                };
                if b.swap_remove_front(p) != want {
                    return Err(format!("op #{i} {op:?}: wrong element"));
                }
                // VecDeque semantics: the front element takes the place of the removed one
                Some(2)
            }
            ROp::TruncateBack(k) => {
                let p = pos(k);
                b.truncate_back(p);
                model.truncate(p);
                Some(2)
            }
            ROp::TruncateFront(k) => {
                let p = pos(k);
                b.truncate_front(p);
                let cut = len.saturating_sub(p);
                model.drain(..cut);
                Some(2)
            }
            ROp::Clear => {
                b.clear();
                model.clear();
                Some(2)
            }
            ROp::Remove(k) => {
                let p = pos(k);
                let want = if p < len { Some(model.remove(p)) } else { None };
                if b.remove(p) != want {
                    return Err(format!("op #{i} {op:?}: wrong element"));
                }
                Some(if p < len { len - p } else { 2 })
            }
            ROp::Drain(x, y) => {
                let (mut p, mut q) = (pos(x).min(len), pos(y).min(len));
                if p > q {
                    std::mem::swap(&mut p, &mut q);
                }
                drop(b.drain(p..q));
                model.drain(p..q);
                Some(len - q)
            }
            ROp::MakeContiguous => {
                let contiguous = b.as_slices().1.is_empty();
                let s = b.make_contiguous();
                if s != &model[..] {
                    return Err(format!("op #{i} {op:?}: returned slice differs from the contents"));
                }
                if contiguous {
                    Some(0)
                } else {
                    None
                }
            }
            ROp::Access(k) => {
                let p = pos(k);
                if b.get(p) != model.get(p) || b.nth_back(p) != len.checked_sub(1 + p).map(|j| &model[j]) {
                    return Err(format!("op #{i} {op:?}: get / nth_back disagree with the model"));
                }
                if let Some(x) = b.get_mut(p) {
                    let v = E::mk(next);
                    next += 1;
                    *x = v;
                    model[p] = v;
                }
                let _ = b.as_mut_slices();
                let _ = b.iter_mut().count();
                // one value was replaced; nothing may move
                Some(0)
            }
        };
        let after = addrs(&b);
        let got: Vec<E> = after.iter().map(|x| x.0).collect();
        if got != model {
            return Err(format!("op #{i} {op:?}: contents {:?}, expected {:?}", got, model));
        }
        let moved = before.iter().filter(|(v, a)| after.iter().any(|(w, a2)| w == v && a2 != a)).count();
        if len >= 3 {
            nontrivial = true;
        }
        if let Some(bd) = bound {
            if moved > bd {
                return Err(format!(
                    "op #{i} {op:?} on {} elements of type {} (capacity {N}): {moved} surviving elements changed address, documented bound for this call is {bd}",
                    len,
                    E::NAME
                ));
            }
        }
    }
    Ok(nontrivial)
}

pub const RCAPS: [u16; 22] = [0, 1, 2, 3, 4, 5, 6, 7, 8, 9, 10, 11, 12, 13, 16, 17, 23, 32, 33, 64, 65, 100];
pub const TYPES: u8 = 8;

fn run_ty<E: El>(c: &RCase) -> Result<bool, String> {
    macro_rules! table {
        ($($n:literal),*) => {
            match c.n {
                $($n => run_n::<$n, E>(c),)*
                n => Err(format!("capacity {n} not in table")),
            }
        };
    }
    table!(0, 1, 2, 3, 4, 5, 6, 7, 8, 9, 10, 11, 12, 13, 16, 17, 23, 32, 33, 64, 65, 100)
}

pub fn run_rcase(c: &RCase) -> Result<bool, String> {
    match c.ty {
        0 => run_ty::<u8>(c),
        1 => run_ty::<i8>(c),
        2 => run_ty::<u16>(c),
        3 => run_ty::<[u8; 3]>(c),
        4 => run_ty::<u32>(c),
        5 => run_ty::<u64>(c),
        6 => run_ty::<[u64; 3]>(c),
        7 if c.n <= 17 => run_ty::<Page>(c),
        7 => Ok(false),
        t => Err(format!("element type {t} not in table")),
    }
}

pub fn enum_ops() -> Vec<ROp> {
    let ks = [0u16, 9000, 20000, 33000, 45000, 56000, 65535];
    let mut v = vec![ROp::PushBack, ROp::PushFront, ROp::TryPushBack, ROp::TryPushFront, ROp::PopBack, ROp::PopFront, ROp::Clear, ROp::MakeContiguous];
    for k in ks {
        v.extend([ROp::SwapRemoveBack(k), ROp::SwapRemoveFront(k), ROp::TruncateBack(k), ROp::TruncateFront(k), ROp::Remove(k), ROp::Access(k)]);
        for j in [0u16, 20000, 45000, 65535] {
            v.push(ROp::Swap(k, j));
            v.push(ROp::Drain(k, j));
        }
    }
    v
}

/// (evaluations, distinct non-trivial, samples, first failure)
pub fn run(thorough: bool, threads: usize) -> (u64, u64, Vec<String>, Option<(RCase, String)>) {
    use std::sync::atomic::{AtomicUsize, Ordering};
    use std::sync::Mutex;
    let ops = enum_ops();
    let mut cases = Vec::new();
    for ty in 0..TYPES {
        for n in RCAPS {
            // all layouts for the small capacities, a spread of them above
            let all = n <= if thorough { 17 } else { 13 };
            let starts: Vec<u16> = if all { (0..n.max(1)).collect() } else { vec![0, 1, n / 2, n - 2, n - 1] };
            let lens: Vec<u16> = if all { (0..=n).collect() } else { vec![0, 1, 3, n / 2, n / 2 + 1, n - 1, n] };
            for s in &starts {
                for l in &lens {
                    for op in &ops {
                        cases.push(RCase { ty, n, start: *s, len: *l, ops: vec![*op, ROp::PushBack] });
                    }
                }
            }
        }
    }
    let next = AtomicUsize::new(0);
    let fail: Mutex<Option<(usize, RCase, String)>> = Mutex::new(None);
    let nontrivial = AtomicUsize::new(0);
    std::thread::scope(|s| {
        for _ in 0..threads {
            s.spawn(|| loop {
                let i = next.fetch_add(256, Ordering::Relaxed);
                if i >= cases.len() || fail.lock().unwrap().is_some() {
                    break;
                }
                for (j, c) in cases[i..(i + 256).min(cases.len())].iter().enumerate() {
                    let r = match std::panic::catch_unwind(std::panic::AssertUnwindSafe(|| run_rcase(c))) {
                        Ok(r) => r,
                        Err(p) => Err(format!("unexpected panic: {}", crate::interp::panic_msg(&p))),
                    };
                    match r {
                        Ok(nt) => {
                            nontrivial.fetch_add(nt as usize, Ordering::Relaxed);
                        }
                        Err(m) => {
                            let mut f = fail.lock().unwrap();
                            if f.as_ref().map_or(true, |(k, _, _)| i + j < *k) {
                                *f = Some((i + j, c.clone(), m));
                            }
                            break;
                        }
                    }
                }
            });
        }
    });
    let samples = cases.iter().step_by(cases.len() / 5 + 1).map(|c| format!("{c:?}")).collect();
    let failure = fail.into_inner().unwrap().map(|(_, c, m)| {
        // the second step is only a probe: try without it
        let t = RCase { ops: c.ops[..1].to_vec(), ..c.clone() };
        match run_rcase(&t) {
            Err(m2) => (t, m2),
            Ok(_) => (c, m),
        }
    });
    (cases.len() as u64, nontrivial.load(Ordering::Relaxed) as u64, samples, failure)
}
