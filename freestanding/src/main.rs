//! No `std`, no `alloc`, no `#[global_allocator]`: if any crate in the graph pulls in `alloc`, this does not link.
//! Usage: cbverif-freestanding <seed> <steps>.  Exit status 0 = every step agreed with the array model;
//! otherwise a line "FAIL N=<n> step=<i> op=<k> what=<w>" is written to stdout and the status is 1.

#![no_std]
#![no_main]

use circular_buffer::CircularBuffer;
use core::panic::PanicInfo;

#[link(name = "c")]
extern "C" {
    fn write(fd: i32, buf: *const u8, n: usize) -> isize;
}

#[panic_handler]
fn panic(_info: &PanicInfo<'_>) -> ! {
    out(b"FAIL panic\n");
    loop {}
}

// The precompiled `core` refers to this symbol (normally provided by std); with panic = "abort" it is never called.
#[no_mangle]
pub extern "C" fn rust_eh_personality() {}

fn out(s: &[u8]) {
    unsafe {
        write(1, s.as_ptr(), s.len());
    }
}

fn out_num(mut v: u64) {
    let mut b = [0u8; 20];
    let mut i = b.len();
    if v == 0 {
        out(b"0");
        return;
    }
    while v > 0 {
        i -= 1;
        b[i] = b'0' + (v % 10) as u8;
        v /= 10;
    }
    out(&b[i..]);
}

/// Reference: a plain array that is shifted on every change.
struct Model {
    a: [u32; 64],
    len: usize,
    cap: usize,
}

impl Model {
    fn push_back(&mut self, v: u32) -> Option<u32> {
        if self.cap == 0 {
            return Some(v);
        }
        let ev = if self.len == self.cap { Some(self.remove(0).unwrap()) } else { None };
        self.a[self.len] = v;
        self.len += 1;
        ev
    }
    fn push_front(&mut self, v: u32) -> Option<u32> {
        if self.cap == 0 {
            return Some(v);
        }
        let ev = if self.len == self.cap {
            self.len -= 1;
            Some(self.a[self.len])
        } else {
            None
        };
        let mut i = self.len;
        while i > 0 {
            self.a[i] = self.a[i - 1];
            i -= 1;
        }
        self.a[0] = v;
        self.len += 1;
        ev
    }
    fn remove(&mut self, i: usize) -> Option<u32> {
        if i >= self.len {
            return None;
        }
        let v = self.a[i];
        let mut k = i;
        while k + 1 < self.len {
            self.a[k] = self.a[k + 1];
            k += 1;
        }
        self.len -= 1;
        Some(v)
    }
    fn s(&self) -> &[u32] {
        &self.a[..self.len]
    }
}

struct Rng(u64);
impl Rng {
    fn next(&mut self) -> u64 {
        // xorshift64*
        self.0 ^= self.0 >> 12;
        self.0 ^= self.0 << 25;
        self.0 ^= self.0 >> 27;
        self.0.wrapping_mul(0x2545F4914F6CDD1D) >> 16
    }
    fn below(&mut self, n: usize) -> usize {
        (self.next() % (n as u64).max(1)) as usize
    }
}

fn same<const N: usize>(b: &CircularBuffer<N, u32>, m: &Model) -> u32 {
    if b.len() != m.len || b.is_empty() != (m.len == 0) || b.is_full() != (m.len == N) {
        return 1;
    }
    if !b.iter().eq(m.s().iter()) || !b.iter().rev().eq(m.s().iter().rev()) {
        return 2;
    }
    let (s1, s2) = b.as_slices();
    if s1.len() + s2.len() != m.len || s1 != &m.s()[..s1.len()] || s2 != &m.s()[s1.len()..] {
        return 3;
    }
    let mut i = 0;
    while i <= m.len {
        if b.get(i) != m.s().get(i) || b.nth_front(i) != m.s().get(i) {
            return 4;
        }
        let back = if i < m.len { Some(&m.a[m.len - 1 - i]) } else { None };
        if b.nth_back(i) != back {
            return 5;
        }
        i += 1;
    }
    if b.front() != m.s().first() || b.back() != m.s().last() {
        return 6;
    }
    if *b != *m.s() {
        return 7;
    }
    0
}

fn run<const N: usize>(seed: u64, steps: u64) -> bool {
    let mut rng = Rng(seed ^ ((N as u64 + 1) << 32) | 1);
    let mut b = CircularBuffer::<N, u32>::new();
    let mut m = Model { a: [0; 64], len: 0, cap: N };
    let mut next = 1u32;
    let mut step = 0u64;
    while step < steps {
        let op = rng.below(22);
        let len = m.len;
        let mut what = 0u32;
        match op {
            0 | 1 | 2 => {
                next += 1;
                if b.push_back(next) != m.push_back(next) {
                    what = 20;
                }
            }
            3 | 4 => {
                next += 1;
                if b.push_front(next) != m.push_front(next) {
                    what = 21;
                }
            }
            5 => {
                next += 1;
                let r = b.try_push_back(next);
                if r.is_err() != (len == N) {
                    what = 22;
                } else if r.is_ok() {
                    m.push_back(next);
                }
            }
            6 => {
                next += 1;
                let r = b.try_push_front(next);
                if r.is_err() != (len == N) {
                    what = 23;
                } else if r.is_ok() {
                    m.push_front(next);
                }
            }
            7 => {
                let w = if len > 0 { m.remove(len - 1) } else { None };
                if b.pop_back() != w {
                    what = 24;
                }
            }
            8 => {
                if b.pop_front() != m.remove(0) {
                    what = 25;
                }
            }
            9 => {
                let i = rng.below(len + 2);
                if b.remove(i) != m.remove(i) {
                    what = 26;
                }
            }
            10 => {
                if len > 0 {
                    let (i, j) = (rng.below(len), rng.below(len));
                    b.swap(i, j);
                    m.a.swap(i, j);
                }
            }
            11 => {
                let k = rng.below(len + 2);
                b.truncate_back(k);
                m.len = m.len.min(k);
            }
            12 => {
                let k = rng.below(len + 2);
                b.truncate_front(k);
                while m.len > k {
                    m.remove(0);
                }
            }
            13 => {
                if rng.below(4) == 0 {
                    b.clear();
                    m.len = 0;
                }
            }
            14 => {
                let k = rng.below(2 * N + 2).min(40);
                let mut src = [0u32; 40];
                let mut i = 0;
                while i < k {
                    next += 1;
                    src[i] = next;
                    m.push_back(next);
                    i += 1;
                }
                b.extend_from_slice(&src[..k]);
            }
            15 => {
                let k = rng.below(N + 2).min(20);
                let first = next + 1;
                b.extend((0..k as u32).map(|i| first + i));
                let mut i = 0;
                while i < k {
                    next += 1;
                    m.push_back(next);
                    i += 1;
                }
            }
            16 => {
                let a = rng.below(len + 1);
                let z = a + rng.below(len - a + 1);
                let mut d = b.drain(a..z);
                let mut taken_front = 0;
                let mut taken_back = 0;
                let mut k = rng.below(3);
                while k > 0 && taken_front + taken_back < z - a {
                    if rng.below(2) == 0 {
                        if d.next() != Some(m.a[a + taken_front]) {
                            what = 27;
                        }
                        taken_front += 1;
                    } else {
                        if d.next_back() != Some(m.a[z - 1 - taken_back]) {
                            what = 28;
                        }
                        taken_back += 1;
                    }
                    k -= 1;
                }
                if d.len() != z - a - taken_front - taken_back {
                    what = 29;
                }
                drop(d);
                let mut i = a;
                while i < z {
                    m.remove(a);
                    i += 1;
                }
            }
            17 => {
                let s = b.make_contiguous();
                if s != m.s() {
                    what = 30;
                }
                if !b.as_slices().1.is_empty() {
                    what = 31;
                }
            }
            18 => {
                let i = rng.below(len + 1);
                next += 1;
                if let Some(x) = b.get_mut(i) {
                    *x = next;
                    m.a[i] = next;
                } else if i < len {
                    what = 32;
                }
                for (x, y) in b.iter_mut().zip(m.a[..len].iter_mut()) {
                    *x = x.wrapping_add(1);
                    *y = *x;
                }
            }
            19 => {
                next += 1;
                let v = next;
                b.fill_spare(v);
                while m.len < N {
                    m.a[m.len] = v;
                    m.len += 1;
                }
            }
            20 => {
                let i = rng.below(len + 1);
                if b.swap_remove_back(i).is_some() != (i < len) {
                    what = 33;
                } else if i < len {
                    let v = m.a[len - 1];
                    m.a[i] = v;
                    m.len -= 1;
                }
            }
            _ => {
                let a = rng.below(len + 1);
                let z = a + rng.below(len - a + 1);
                if !b.range(a..z).eq(m.a[a..z].iter()) || b.range(a..z).len() != z - a {
                    what = 34;
                }
                let c = b.clone();
                if c != b || same(&c, &m) != 0 {
                    what = 35;
                }
            }
        }
        if what == 0 {
            what = same(&b, &m);
        }
        if what != 0 {
            out(b"FAIL N=");
            out_num(N as u64);
            out(b" step=");
            out_num(step);
            out(b" op=");
            out_num(op as u64);
            out(b" what=");
            out_num(what as u64);
            out(b"\n");
            return false;
        }
        step += 1;
    }
    true
}

// ---------------------------------------------------------------------------------------------------
// second pass: elements with a destructor (this program is built with panic = "abort", a configuration no
// test build can have): created - destroyed must equal what the buffer and the caller hold, at every step and
// after the buffer itself is dropped

use core::sync::atomic::{AtomicUsize, Ordering};
static CREATED: AtomicUsize = AtomicUsize::new(0);
static DROPPED: AtomicUsize = AtomicUsize::new(0);

struct D(u32);
impl D {
    fn new(v: u32) -> D {
        CREATED.fetch_add(1, Ordering::Relaxed);
        D(v)
    }
}
impl Clone for D {
    fn clone(&self) -> D {
        D::new(self.0)
    }
}
impl Drop for D {
    fn drop(&mut self) {
        DROPPED.fetch_add(1, Ordering::Relaxed);
    }
}

fn live() -> usize {
    CREATED.load(Ordering::Relaxed) - DROPPED.load(Ordering::Relaxed)
}

fn run_drops<const N: usize>(seed: u64, steps: u64) -> bool {
    let mut rng = Rng(seed ^ 0xD0D0_0000 ^ ((N as u64 + 7) << 24) | 1);
    let base = live();
    let mut round = 0u64;
    // several buffers, each destroyed at a random moment (also while full or wrapped)
    while round < steps / 64 + 1 {
        let mut b = CircularBuffer::<N, D>::new();
        let mut len = 0usize;
        let mut next = 1u32;
        let mut what = 0u32;
        let mut step = 0u64;
        let mut op = 0usize;
        let stop = rng.below(64) as u64 + 1;
        while step < stop && what == 0 {
            op = rng.below(14);
            match op {
                0 | 1 | 2 | 3 => {
                    next += 1;
                    let r = b.push_back(D::new(next));
                    if r.is_some() != (len == N) {
                        what = 40;
                    }
                    len = (len + 1).min(N);
                }
                4 | 5 => {
                    next += 1;
                    let r = b.push_front(D::new(next));
                    if r.is_some() != (len == N) {
                        what = 41;
                    }
                    len = (len + 1).min(N);
                }
                6 => {
                    if b.pop_front().is_some() != (len > 0) {
                        what = 42;
                    }
                    len = len.saturating_sub(1);
                }
                7 => {
                    if b.pop_back().is_some() != (len > 0) {
                        what = 43;
                    }
                    len = len.saturating_sub(1);
                }
                8 => {
                    let k = rng.below(len + 2);
                    b.truncate_back(k);
                    len = len.min(k);
                }
                9 => {
                    let k = rng.below(len + 2);
                    b.truncate_front(k);
                    len = len.min(k);
                }
                10 => {
                    if rng.below(3) == 0 {
                        b.clear();
                        len = 0;
                    }
                }
                11 => {
                    let k = rng.below(N + 3).min(12);
                    let src = [D::new(1), D::new(2), D::new(3), D::new(4), D::new(5), D::new(6), D::new(7), D::new(8), D::new(9), D::new(10), D::new(11), D::new(12)];
                    b.extend_from_slice(&src[..k]);
                    len = (len + k).min(N);
                }
                12 => {
                    let a = rng.below(len + 1);
                    let z = a + rng.below(len - a + 1);
                    let mut d = b.drain(a..z);
                    if rng.below(2) == 0 {
                        let _ = d.next();
                    }
                    if rng.below(2) == 0 {
                        let _ = d.next_back();
                    }
                    drop(d);
                    len -= z - a;
                }
                _ => {
                    let i = rng.below(len + 1);
                    if b.remove(i).is_some() != (i < len) {
                        what = 44;
                    } else if i < len {
                        len -= 1;
                    }
                }
            }
            if what == 0 && (b.len() != len || live() != base + len) {
                what = 45;
            }
            step += 1;
        }
        if what == 0 {
            drop(b);
            if live() != base {
                what = 46;
            }
        }
        if what != 0 {
            out(b"FAIL (elements with a destructor) N=");
            out_num(N as u64);
            out(b" round=");
            out_num(round);
            out(b" step=");
            out_num(step);
            out(b" op=");
            out_num(op as u64);
            out(b" what=");
            out_num(what as u64);
            out(b" live=");
            out_num(live() as u64);
            out(b" expected=");
            out_num((base + len) as u64);
            out(b"\n");
            return false;
        }
        round += 1;
    }
    true
}

unsafe fn parse(p: *const u8) -> u64 {
    let mut v = 0u64;
    let mut i = 0;
    loop {
        let c = *p.add(i);
        if !(b'0'..=b'9').contains(&c) {
            return v;
        }
        v = v.wrapping_mul(10).wrapping_add((c - b'0') as u64);
        i += 1;
    }
}

#[no_mangle]
pub extern "C" fn main(argc: i32, argv: *const *const u8) -> i32 {
    let (seed, steps) = unsafe {
        (if argc > 1 { parse(*argv.add(1)) } else { 1 }, if argc > 2 { parse(*argv.add(2)) } else { 20000 })
    };
    let ok = run::<0>(seed, steps)
        && run::<1>(seed, steps)
        && run::<2>(seed, steps)
        && run::<3>(seed, steps)
        && run::<5>(seed, steps)
        && run::<8>(seed, steps)
        && run::<16>(seed, steps)
        && run::<33>(seed, steps)
        && run_drops::<0>(seed, steps)
        && run_drops::<1>(seed, steps)
        && run_drops::<2>(seed, steps)
        && run_drops::<3>(seed, steps)
        && run_drops::<5>(seed, steps)
        && run_drops::<8>(seed, steps)
        && run_drops::<16>(seed, steps);
    if ok {
        out(b"OK steps=");
        out_num(steps * 8);
        out(b"\n");
        0
    } else {
        1
    }
}
